#!/bin/bash
# Replays the Go SemVer 2.0.0 precedence model against node-semver 7.x (bundled with npm).
cd "$(dirname "$0")/.."
"${VERIF_BIN:-.work}/vcheck" -dumpref semver -dumpmax "${1:-700}" > .work/semver_pairs.txt || exit 2
node -e '
const semver=require("/usr/lib/node_modules/npm/node_modules/semver");
const lines=require("fs").readFileSync(".work/semver_pairs.txt","utf8").split("\n");
let n=0,bad=0,inv=0;
for(const l of lines){ if(!l) continue; const [a,b,w]=l.split(" ");
  if(!semver.valid(a)||!semver.valid(b)){inv++;continue;}
  const got=semver.compare(a,b); n++;
  if(got!==parseInt(w)){bad++; if(bad<20) console.log("DISAGREE",a,b,"port="+w,"node-semver="+got);} }
console.log("tool=node-semver-"+semver.SEMVER_SPEC_VERSION+" pairs="+n+" disagreements="+bad+" invalid_for_node_semver="+inv);
process.exit(bad?1:0);'
