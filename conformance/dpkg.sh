#!/bin/bash
# Replays the Go port of dpkg's version comparison against Dpkg::Version (perl) on all ordered
# pairs of a deterministic sub-universe. Prints "pairs=N disagreements=M"; exit 1 if M>0.
cd "$(dirname "$0")/.."
"${VERIF_BIN:-.work}/vcheck" -dumpref debian -dumpmax "${1:-700}" > .work/dpkg_pairs.txt || exit 2
perl -MDpkg::Version -e '
my ($n,$bad)=(0,0);
while(<STDIN>){chomp; my($a,$b,$want)=split / /; 
  my $va=Dpkg::Version->new($a,check=>1); my $vb=Dpkg::Version->new($b,check=>1);
  if(!defined $va || !$va->is_valid() || !defined $vb || !$vb->is_valid()){ $inv++; print "INVALID-FOR-DPKG $a | $b\n" if $inv<10; next; }
  my $got=Dpkg::Version::version_compare($a,$b); $n++;
  if($got!=$want){
    # Dpkg::Version compares digit runs as perl numbers (doubles); confirm with the C implementation
    my $op = $want<0 ? "lt" : ($want>0 ? "gt" : "eq");
    if(system("dpkg","--compare-versions",$a,$op,$b)==0){ $perl_imprecise++; next; }
    $bad++; print "DISAGREE $a $b port=$want dpkg=$got\n" if $bad<20;}
}
print "tool=Dpkg::Version+dpkg pairs=$n disagreements=$bad invalid_for_dpkg=".($inv||0)." perl_double_imprecision_resolved_by_dpkg_binary=".($perl_imprecise||0)."\n"; exit($bad?1:0);' < .work/dpkg_pairs.txt
