import java.io.*;
import org.apache.maven.artifact.versioning.ComparableVersion;

public class Cmp {
    public static void main(String[] a) throws Exception {
        BufferedReader r = new BufferedReader(new InputStreamReader(System.in));
        String l; long n = 0, bad = 0;
        java.util.HashMap<String, ComparableVersion> cache = new java.util.HashMap<>();
        while ((l = r.readLine()) != null) {
            String[] p = l.split(" ");
            if (p.length != 3) continue;
            ComparableVersion x = cache.computeIfAbsent(p[0], ComparableVersion::new);
            ComparableVersion y = cache.computeIfAbsent(p[1], ComparableVersion::new);
            int got = Integer.signum(x.compareTo(y));
            n++;
            if (got != Integer.parseInt(p[2])) { bad++; if (bad < 20) System.out.println("DISAGREE " + p[0] + " " + p[1] + " port=" + p[2] + " maven=" + got); }
        }
        System.out.println("tool=maven-artifact-ComparableVersion pairs=" + n + " disagreements=" + bad);
        System.exit(bad > 0 ? 1 : 0);
    }
}
