#!/bin/bash
# Replays the Go port of PEP 440's sort key against packaging.version (python3-vt).
cd "$(dirname "$0")/.."
"${VERIF_BIN:-.work}/vcheck" -dumpref pypi -dumpmax "${1:-700}" > .work/pypi_pairs.txt || exit 2
python3-vt - <<'PY'
from packaging.version import Version, InvalidVersion
import packaging
n=bad=inv=0
cache={}
def V(s):
    if s not in cache:
        try: cache[s]=Version(s)
        except InvalidVersion: cache[s]=None
    return cache[s]
for l in open('.work/pypi_pairs.txt'):
    a,b,w=l.split(' ')
    va,vb=V(a),V(b)
    if va is None or vb is None: inv+=1; continue
    got=(va>vb)-(va<vb); n+=1
    if got!=int(w):
        bad+=1
        if bad<20: print("DISAGREE",a,b,"port=%s packaging=%d"%(w.strip(),got))
print("tool=packaging-%s pairs=%d disagreements=%d invalid_for_packaging=%d"%(packaging.__version__,n,bad,inv))
raise SystemExit(1 if bad else 0)
PY
