#!/bin/bash
# Replays the Go port of ComparableVersion against Maven's own class (maven-artifact jar).
cd "$(dirname "$0")/.."
JAR=$(ls /usr/share/maven/lib/maven-artifact-3.x.jar /usr/share/java/maven3-artifact.jar 2>/dev/null | head -1)
[ -z "$JAR" ] && { echo "tool=absent pairs=0 disagreements=0 (skipped: maven-artifact jar not found)"; exit 0; }
mkdir -p .work/mavenconf
javac -cp "$JAR" -d .work/mavenconf conformance/maven/Cmp.java 2>.work/mavenconf/javac.log || { cat .work/mavenconf/javac.log; exit 2; }
"${VERIF_BIN:-.work}/vcheck" -dumpref maven -dumpmax "${1:-700}" > .work/maven_pairs.txt || exit 2
java -cp "$JAR:.work/mavenconf" Cmp < .work/maven_pairs.txt
