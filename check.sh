#!/bin/bash
# ./check.sh <Cxx> <quick|thorough> | replay <file> | setup
# Every invocation rebuilds the checker against /repo's current working tree (go.mod replaces the
# module with /repo), so edits to /repo are always what is checked.
set -u
cd "$(dirname "$0")"
export GOFLAGS=-mod=mod GOPROXY=off
unset GOSUMDB GOTOOLCHAIN 2>/dev/null || true
export GOCACHE="${GOCACHE:-$HOME/.cache/go-build}"
mkdir -p .work replay evidence

build() {
  go build -o .work/vcheck ./cmd/vcheck 2> .work/build.log
  rc=$?
  if [ $rc -ne 0 ]; then
    echo "BUILD-ERROR: the checker does not compile against /repo's working tree" >&2
    cat .work/build.log >&2
    exit 2
  fi
}

case "${1:-}" in
  setup)
    build
    echo "setup ok"
    ;;
  replay)
    build
    exec ./.work/vcheck -replay "$2"
    ;;
  C[0-9][0-9])
    build
    tier="${2:-${VERIF_TIER:-quick}}"
    exec ./.work/vcheck -prop "$1" -tier "$tier"
    ;;
  *)
    echo "usage: $0 <Cxx> <quick|thorough> | replay <file> | setup" >&2
    exit 2
    ;;
esac
