#!/bin/bash
# ./check.sh <Cxx> <quick|thorough> | replay <file> | setup
# Every invocation rebuilds the checker against /repo's current working tree (go.mod replaces the
# module with /repo), so edits to /repo are always what is checked.
set -u
cd "$(dirname "$0")"
export VERIF_ROOT="$PWD"
export GOFLAGS=-mod=mod GOPROXY=off
unset GOSUMDB GOTOOLCHAIN 2>/dev/null || true
export GOCACHE="${GOCACHE:-$HOME/.cache/go-build}"
mkdir -p .work replay evidence
# every invocation builds into its own directory, so that checks may run in parallel
case "${1:-}" in
  C[0-9][0-9]) B=".work/bin-$1" ;;
  replay) B=".work/bin-replay-$$" ;;
  *) B=".work/bin-setup" ;;
esac
mkdir -p "$B"
export VERIF_BIN="$PWD/$B"

build_cli() {
  # the real CLI, twice: plain, and with the stdin/stdout server hook injected by overlay
  mkdir -p "$B/hooks"
  cp hooks/cli_server.go.txt "$B/hooks/zz_verif_server.go"
  printf '{"Replace":{"/repo/cmd/zz_verif_server.go":"%s/hooks/zz_verif_server.go"}}' "$VERIF_BIN" > "$B/overlay-cli.json"
  (cd /repo && go build -o "$VERIF_BIN/univers" ./cmd) 2> "$B/build-cli.log" &&
  (cd /repo && go build -overlay "$VERIF_BIN/overlay-cli.json" -o "$VERIF_BIN/univers-server" ./cmd) 2>> "$B/build-cli.log"
  rc=$?
  if [ $rc -ne 0 ]; then
    echo "BUILD-ERROR: the CLI does not build from /repo's working tree" >&2
    cat "$B/build-cli.log" >&2
    exit 2
  fi
}

build_instr() {
  # instrumented sources + overlay (repo untouched), then the checker linked against them
  go build -o "$B/vinstr" ./cmd/vinstr 2> "$B/build-instr.log" && "$B/vinstr" -out "$VERIF_BIN/instr" -overlay "$VERIF_BIN/overlay.json" > "$B/vinstr.out" 2>> "$B/build-instr.log" &&
  go build -tags verif_instr -overlay "$B/overlay.json" -o "$B/vcheck-instr" ./cmd/vcheck 2>> "$B/build-instr.log"
  rc=$?
  if [ $rc -ne 0 ]; then
    echo "BUILD-ERROR: the instrumented checker does not build from /repo's working tree" >&2
    cat "$B/build-instr.log" >&2
    exit 2
  fi
  # self-test: the repository's own tests must pass on the instrumented tree
  if ! (cd /repo && go test -vet=off -count=1 -overlay "$VERIF_BIN/overlay.json" ./... > "$VERIF_BIN/instr-selftest.log" 2>&1); then
    echo "BUILD-ERROR: the repository's tests do not pass on the instrumented tree (or on the tree itself)" >&2
    grep -v '^ok' "$B/instr-selftest.log" | head -30 >&2
    exit 2
  fi
}

build() {
  go build -o "$B/vcheck" ./cmd/vcheck 2> "$B/build.log"
  rc=$?
  if [ $rc -ne 0 ]; then
    echo "BUILD-ERROR: the checker does not compile against /repo's working tree" >&2
    cat "$B/build.log" >&2
    exit 2
  fi
}

case "${1:-}" in
  setup)
    build
    build_cli
    build_instr
    go build -race -o "$B/vrace" ./cmd/vrace 2> "$B/build-race.log" || { cat "$B/build-race.log" >&2; exit 2; }
    echo "setup ok"
    ;;
  replay)
    build
    prop=$(grep -o '"property": *"C[0-9][0-9]"' "$2" | head -1 | grep -o 'C[0-9][0-9]')
    case "$prop" in C06|C07|C15) build_cli ;; esac
    case "$prop" in
      C06|C19)
        build_instr
        [ "$prop" = C19 ] && { go build -race -o "$B/vrace" ./cmd/vrace 2> "$B/build-race.log" || exit 2; }
        "$B/vcheck-instr" -replay "$2"; rc=$?; rm -rf "$B"; exit $rc ;;
    esac
    "$B/vcheck" -replay "$2"; rc=$?; rm -rf "$B"; exit $rc
    ;;
  C[0-9][0-9])
    build
    case "$1" in C06|C07|C15) build_cli ;; esac
    tier="${2:-${VERIF_TIER:-quick}}"
    case "$1" in
      C06|C19)
        build_instr
        if [ "$1" = C19 ]; then
          go build -race -o "$B/vrace" ./cmd/vrace 2> "$B/build-race.log" || { echo "BUILD-ERROR: race-pass binary" >&2; cat "$B/build-race.log" >&2; exit 2; }
        fi
        exec "$B/vcheck-instr" -prop "$1" -tier "$tier" ;;
    esac
    exec "$B/vcheck" -prop "$1" -tier "$tier"
    ;;
  *)
    echo "usage: $0 <Cxx> <quick|thorough> | replay <file> | setup" >&2
    exit 2
    ;;
esac
