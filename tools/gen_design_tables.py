#!/usr/bin/env python3
"""Regenerates the generated blocks of DESIGN.md (findings/fixes list, seeded-change table)."""
import json, glob, re, subprocess
def esc(x): return x.replace('|', '\\|')
D='/verif/DESIGN.md'
s=open(D).read()
kf=json.load(open('/verif/known_findings.json'))['findings']
fixed=[e for e in kf if e['status']=='fixed']
known=[e for e in kf if e['status']=='known']
out=[]
ncommits=len(set(e.get('commit') for e in fixed))
out.append(f"**{len(fixed)} failing behaviours repaired by {ncommits} `fix:` commits** in /repo (each commit minimal, the existing suite unedited and green with it; some commits repair what two properties report; a `fixed` entry suppresses nothing):\n")
out.append("| property | commit | what failed |")
out.append("|---|---|---|")
seen=set()
for e in fixed:
    line=e.get('line','')
    m=re.match(r'fixed: property=(\S+) (\S+) (.*)',line)
    if not m: continue
    out.append(f"| {m.group(1)} | `{m.group(2)}` | {esc(m.group(3))} |")
out.append("")
out.append(f"**{len(known)} known findings** (genuine, recorded rather than repaired; each is attributed only by the predicate registered under its id in `engine/findings/`, so a different violation of the same property is still reported):\n")
out.append("| id | scope | class (what is attributed) | why not repaired |")
out.append("|---|---|---|---|")
for e in known:
    what=esc(e['what'])
    out.append(f"| {e['id']} | {e['scope']} | {esc(e.get('class',''))}{' - observed: '+e['observed'] if e.get('observed') else ''} | {what} |")
block="\n".join(out)
s=re.sub(r'<!-- BEGIN:FINDINGS -->.*?<!-- END:FINDINGS -->', lambda m:'<!-- BEGIN:FINDINGS -->\n'+block+'\n<!-- END:FINDINGS -->', s, flags=re.S)
rows=["| seed | breaks | change (file / mechanism) | caught by |","|---|---|---|---|"]
for d in sorted(glob.glob('/verif/seeded/*')):
    m=json.load(open(d+'/meta.json'))
    patch=open(d+'/patch.diff').read()
    files=sorted(set(re.findall(r'^\+\+\+ b/(\S+)',patch,flags=re.M)))
    notes=open(d+'/notes.md').read() if glob.glob(d+'/notes.md') else ''
    title=''
    for l in notes.splitlines():
        l=l.strip('# ').strip()
        if len(l)>25 and not l.lower().startswith(('file','what','which','seed')):
            title=l; break
    title=(title[:110]+'...') if len(title)>110 else title
    rows.append(f"| {m['seed']} | {m['breaks_property']} | {', '.join(f.replace('pkg/ecosystem/','').replace('pkg/spec/','') for f in files)}: {title.replace('|','/')} | {', '.join(m['caught_by']) or 'NOT CAUGHT'} |")
s=re.sub(r'<!-- BEGIN:SEEDED -->.*?<!-- END:SEEDED -->', lambda m:'<!-- BEGIN:SEEDED -->\n'+"\n".join(rows)+'\n<!-- END:SEEDED -->', s, flags=re.S)
open(D,'w').write(s)
print("fixed",len(fixed),"known",len(known),"seeds",len(rows)-2)
