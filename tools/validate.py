#!/usr/bin/env python3
import json, sys, glob, jsonschema
m = json.load(open('/verif/MANIFEST.json'))
jsonschema.validate(m, json.load(open('/root/.vp/MANIFEST.schema.json')))
es = json.load(open('/root/.vp/EVIDENCE.schema.json'))
ok = True
for c in m['checks']:
    try:
        e = json.load(open(c['evidence_file']))
        jsonschema.validate(e, es)
        cov = e['coverage']
        print(c['property_id'], 'ok', e['tier'], 'states', cov.get('states'), 'trans', cov.get('transitions'), 'nontrivial', cov.get('distinct_nontrivial'), 'exh', cov.get('exhaustive'), 'wall', round(e['wall_s'],1))
    except Exception as ex:
        ok = False
        print(c['property_id'], 'INVALID', str(ex)[:300])
sys.exit(0 if ok else 1)
