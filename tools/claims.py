NOT_CLAIMED = {}
CLAIMED = {
 "C01": dict(
  technique="bounded-exhaustive enumeration of version strings (token grammar + all strings <= L over the lexical alphabet) x all ordered pairs on the real Compare; all N^3 triples decided by the O(N^2) rank criterion",
  text="Every accepted string of a stated finite universe per ecosystem is compared with every other (both argument orders) on the real code; sign range, reflexivity, antisymmetry are checked per pair and transitivity for all triples via the rank criterion, so within the universe the verdict is complete, not sampled.",
  note="Bound: universe = grammar to the written repetition bounds + all strings of length <= L; strings outside it are not covered. alpm triples mixing pkgrel presence excluded as the property states. Known genuine defects are attributed by per-operand class predicates (known_findings.json); the complement sub-universe must pass the full criterion.",
  ref="DESIGN.md 3.3, 4 (C01)"),
 "C02": dict(
  technique="bounded-exhaustive enumeration of (comparator, bound, probe), (comparator pair, AND separator, bound pair, probe) and OR-group combinations on the real range parser and Contains, against the real Compare",
  text="For every ecosystem the documented comparator/separator table is instantiated with every bound of a stated sub-universe and evaluated on every probe; the expected membership is computed from the implementation's own Compare, so the biconditional is decided for every enumerated case.",
  note="Bounds are a stride sub-universe of C01's universe plus one bound per distinct letter; bounds starting with comparator characters or containing separators are out of scope as stated. The syntax table is written from the documentation (DESIGN.md Appendix B).",
  ref="DESIGN.md 4 (C02)"),
 "C03": dict(
  technique="bounded-exhaustive enumeration of integer tuples over a boundary set for every documented arity (all ordered pairs) and of every (tuple, marker spelling) pair, on the real parser and Compare against the integer-tuple order",
  text="Every tuple of the boundary set must parse and every ordered pair of same-arity tuples must compare as the integer tuples; every accepted pre/post marker spelling must sort strictly below/above its unmarked tuple. The space is finite and enumerated completely.",
  note="The quantifier's 'random values' are replaced by the deterministic boundary set {0,1,2,9,10,11,99,100,999,1000,65535,2^31-1}; marker direction tables come from each ecosystem's documentation; composer patch/pl, mattermost -esr, alpm pkgrel and build metadata are not claimed.",
  ref="DESIGN.md 4 (C03)"),
 "C10": dict(
  technique="bounded-exhaustive enumeration of dpkg-valid version strings (token grammar + all strings <= L) x all ordered pairs on the real Compare against a Go port of dpkg's verrevcmp, the port itself replayed against Dpkg::Version/dpkg",
  text="All ordered pairs of the enumerated dpkg-valid universe are compared on the real code and must give the reference sign; the reference is a straight port of dpkg's algorithm whose agreement with the installed dpkg is re-established by replaying the same universe (thorough tier).",
  note="Trusted base: the Go port (engine/ref/debian.go) and the installed dpkg 1.21.22 used to validate it. Strings outside the enumerated universe are not covered.",
  ref="DESIGN.md 4 (C10), Appendix A.3"),
 "C11": dict(
  technique="bounded-exhaustive enumeration of rpm version strings (token grammar, rpm's own vectors, all strings <= L) x all ordered pairs on the real Compare against a Go port of rpmvercmp",
  text="All ordered pairs of the enumerated universe are compared on the real code and must give the sign of the rpmvercmp port applied to epoch, version and release; disagreements are attributed to a listed finding only when the reference's deciding rule and the observed sign match the finding exactly.",
  note="Trusted base: the Go port of rpmvercmp (engine/ref/rpm.go), asserted on every run against rpm's documented test vectors; no executable rpm exists in this image. Missing-vs-present release uses rpmVersionCompare's convention; '~'-leading releases there are not claimed.",
  ref="DESIGN.md 4 (C11), Appendix A.4"),
 "C08": dict(
  technique="bounded-exhaustive enumeration of SemVer strings (cores x all pre-release identifier lists up to a bound over a stated identifier alphabet x build variants; Go pseudo-version forms) x all ordered pairs on the real Compare against a SemVer 2.0.0 section-11 model (golang: golang.org/x/mod/semver itself); all strings <= L for strict-semver acceptance",
  text="All ordered pairs of the enumerated universe per ecosystem are compared on the real code against the reference; the strict semver parser is run on every string up to the length bound against the official grammar.",
  note="Trusted base: engine/ref/semver.go, replayed against node-semver 7.6.2 (thorough tier); golang uses x/mod/semver v0.22.0 directly. NuGet pairs differing only by identifier case are not claimed.",
  ref="DESIGN.md 4 (C08), Appendix A.1"),
 "C09": dict(
  technique="bounded-exhaustive enumeration of PEP 440 strings (product of present/absent epoch, release, pre, post, dev, local segments and spelling variants) x all ordered pairs on the real Compare against a Go port of packaging's _cmpkey, the port replayed against packaging 26.3",
  text="All ordered pairs of the enumerated grammar product are compared on the real code against the PEP 440 key order; the reference is re-validated against the installed 'packaging' on the same universe (thorough tier).",
  note="Trusted base: engine/ref/pep440.go and packaging 26.3. Local-label disagreements are a listed known finding (test-pinned) and are attributed only when the reference decided by the local label and Compare returned 0.",
  ref="DESIGN.md 4 (C09), Appendix A.2"),
 "C12": dict(
  technique="bounded-exhaustive enumeration of conventionally shaped Maven versions (shape grammar x every known qualifier in three letter cases, aliases, unknown words, numbers) x all ordered pairs on the real Compare against a Go port of ComparableVersion, the port replayed against Maven's own jar",
  text="All ordered pairs of the enumerated conventional-shape universe are compared on the real code against the ComparableVersion port; the port is re-validated against maven-artifact 3.8.7 on the same universe (thorough tier; 1.1M pairs, 0 disagreements when built).",
  note="Trusted base: engine/ref/maven.go and /usr/share/maven/lib/maven-artifact-3.x.jar. Exotic chains and bare single-letter aliases are outside the domain as the property states.",
  ref="DESIGN.md 4 (C12), Appendix A.5"),
 "C13": dict(
  technique="bounded-exhaustive enumeration of RubyGems version strings (grammar of numeric cores with dotted/glued/hyphenated letter groups, RubyGems' examples, all token strings <= L) x all ordered pairs on the real Compare against a Go port of Gem::Version#<=>",
  text="All ordered pairs of the enumerated universe (restricted to RubyGems' own VERSION_PATTERN) are compared on the real code against the port of Gem::Version's canonical-segment comparison.",
  note="Trusted base: engine/ref/gem.go, asserted on every run against RubyGems' documented examples; no ruby exists in this image, so the port is not conformance-checked against an executable RubyGems.",
  ref="DESIGN.md 4 (C13), Appendix A.6"),
 "C14": dict(
  technique="bounded-exhaustive enumeration of well-formed apk versions (1-5 components, letter, 0-3 suffixes of the nine names, -rN) x all ordered pairs with equal component count on the real Compare against a Go model of the apk-tools token order",
  text="All ordered same-arity pairs of the enumerated well-formed universe are compared on the real code against the model of the order the property restates; the model is itself checked on every run against every in-domain row of the repository's copy of apk-tools' version.data.",
  note="Trusted base: engine/ref/apk.go; no apk binary exists in this image. Differing component counts, leading zeros and ~hash are not claimed.",
  ref="DESIGN.md 4 (C14), Appendix A.7"),
 "C04": dict(
  technique="bounded-exhaustive enumeration of VERS comparator shapes (every spec-valid sequence of 1..n comparators) x increasing version pools per scheme x every probe position, on the real vers.Contains against the spec's interval semantics computed with the scheme's own Compare",
  text="Every spec-valid comparator shape up to the tier's length, for all 11 schemes and 2-3 version pools each, is evaluated on probes at, between, below and above every bound; the expected value is the reference union-of-intervals semantics over the scheme's Compare.",
  note="n <= 4 (quick) / 8 (thorough) constraints; bound versions come from fixed pools that are validated as strictly increasing on every run; pypi pre-release default exclusion is part of the oracle.",
  ref="DESIGN.md 4 (C04), Appendix A.8"),
 "C16": dict(
  technique="bounded-exhaustive metamorphic enumeration: every spec-valid VERS shape up to n constraints x all permutations x whitespace-insertion patterns x duplication patterns x empty-constraint patterns x every probe, on the real vers.Contains, compared with the canonical spelling",
  text="For every enumerated base range all n! orders, the stated families of space insertions, duplications and empty constraints are generated and each variant must give the same (result, error-ness) as the canonical spelling on every probe - a relation between executions, decided for every enumerated variant.",
  note="n <= 3 (quick) / 5 (thorough, every 4th shape at n=5); whitespace patterns are all subsets for <= 10 slots and all singles/pairs beyond, plus a space at every inner position of every version text. Only SP is inserted.",
  ref="DESIGN.md 4 (C16)"),
 "C17": dict(
  technique="bounded-exhaustive enumeration of every single-point corruption (delete/replace/insert over a 20-character alphabet at every position, plus scheme-case, operator and prefix damage) of seed ranges against a reference syntax classifier, and of every (comparator, bound, probe) over discriminating version spellings against each scheme's own ecosystem",
  text="All single-point corruptions of the seed ranges are executed and every one the reference classifier puts in the must-error set must return (false, error); for routing, every comparator x bound x probe over 48 spellings must match the scheme's ecosystem and the run itself proves that each other ecosystem is distinguishable by at least one enumerated pair.",
  note="Version validity inside the classifier is the scheme's ecosystem parser (as C17 states). The lone '*' is not covered.",
  ref="DESIGN.md 4 (C17), Appendix A.9"),
 "C07": dict(
  technique="bounded-exhaustive enumeration of every list (every permutation of every multiset) of length 1..5/6 over small derived universes per ecosystem, sorted through the real CLI (overlay-built in-process server around run()) and through the README slices.SortFunc idiom; multiset, adjacency and permutation-invariance oracles",
  text="Every list up to the length bound over each universe is sorted by the real code paths; output must be a permutation of the input, adjacent pairs non-decreasing under the real Compare, and the class sequence identical for all orderings of the same multiset; invalid arguments must give exit 1 and a diagnostic naming them.",
  note="Universes are derived from C01's universe and exclude elements of C01's known-intransitive classes; lengths 13/33/64 are covered by deterministic families, not all permutations. The CLI is driven through an overlay-injected stdin/stdout server calling the repository's own run().",
  ref="DESIGN.md 4 (C07)"),
 "C15": dict(
  technique="bounded-exhaustive enumeration of CLI argument vectors (20 names + vers + near-miss names x commands x all vectors up to length 3-5 over an argument pool) through the repository's run() via an overlay-built in-process server, a deterministic stride also as real processes, against results computed by calling the library directly",
  text="Every enumerated argv is executed by the real CLI code and its stdout/exit code must equal what the library returns for the same arguments (or be exit 1 with a non-result diagnostic); ecosystem names come from the library packages, so a mis-wired registration or swapped arguments are caught for all 20 ecosystems.",
  note="The in-process server is injected with go build -overlay (no source change); main()->os.Exit is validated on the stride executed as real processes.",
  ref="DESIGN.md 4 (C15)"),
 "C18": dict(
  technique="bounded-exhaustive enumeration of every accepted version/range string of the universes x every whitespace padding (lead x trail) x a probe set, on the real parsers, String(), Compare and Contains; metamorphic equality with the unpadded / re-parsed value",
  text="For every enumerated accepted string the text round-trip, the re-parse and every padding are executed and must not change acceptance, String() (up to outer whitespace), any comparison against the probe set or any membership; rejected candidates must stay rejected under padding.",
  note="Universe = C01's quick universe and the range grammar of engine/gen/ranges.go; paddings from {SP, TAB, CR, LF} (single, thorough: also two-character).",
  ref="DESIGN.md 4 (C18)"),
 "C05": dict(
  technique="bounded-exhaustive enumeration of (ecosystem, shorthand construct, base tuple of every documented arity, probe of a boundary grid) on the real range parser and Contains against a table of documented desugarings evaluated with the ecosystem's own Compare",
  text="Every documented shorthand x every base over the value set (zeros in leading positions, pre-release bases) is parsed and evaluated on a probe grid that contains the base, the version just below it, the last version before the upper bound, the upper bound and pre-releases around it; membership must equal the documented interval.",
  note="The desugaring table is the oracle and is written from the ecosystems' documentation as restated in the property; upstream-disagreeing points (pre-releases of an exclusive upper bound outside npm) are don't-care and counted. Composer probes are stable, pypi probes final/post, maven bare versions and cargo bare versions are not claimed.",
  ref="DESIGN.md 4 (C05)"),
 "C20": dict(
  technique="bounded-exhaustive enumeration of (range of the full range grammar, version of a sub-universe closed under Compare-equal spellings) on the real Contains; equal-class constancy decides all equal pairs and contiguity of member classes along the rank order decides convexity for all triples",
  text="For every accepted range the whole membership vector over the universe is computed by the real code; it must be constant on each equivalence class of the real Compare and, for conjunctive ranges, its member classes must be contiguous - which decides every pair and every triple of the universe, not a sample.",
  note="Universe: stride sub-universe of C01's universe plus up to 3 equal spellings per member; elements of C01's known-intransitive classes excluded; pypi '===' and alpm pkgrel-presence mixing excluded as stated.",
  ref="DESIGN.md 4 (C20)"),
 "C06": dict(
  technique="bounded-exhaustive enumeration of all strings up to length L over a 24-character syntax alphabet (plus byte-level specials at every position, grammar candidates, VERS prefixes, CLI vectors and structured growth families) on every entry point, with overlay-injected statement counters giving a deterministic step budget and growth-ratio oracle",
  text="Every enumerated string is fed to all 42 parsers / vers.Contains / the CLI under recover and under a statement budget of 50*n^2+1e6 injected-counter steps; panics, value-and-error or neither, follow-up operation panics, error-with-true and budget overruns (the deterministic form of 'does not terminate / worse than quadratic') are violations; growth families must stay at most quadratic by measured step ratios.",
  note="Instrumentation is injected with go build -overlay from the current /repo tree on every run (no source change) and self-tested by running the repository's tests on the instrumented tree. Standard-library internals are not counted. Fuzzing beyond the alphabet is not part of this technique.",
  ref="DESIGN.md 3.5, 4 (C06)"),
 "C19": dict(
  technique="explicit-state search over all operation sequences up to depth d on shared values (state = deep reflect/unsafe snapshot of shared values and all package-level variables; results compared with fresh-process baselines) plus stateless exploration of all schedules with <= 1 preemption of 2-3 real goroutines under a cooperative scheduler whose scheduling points are overlay-injected before every statement; complemented by a separate free-running -race pass of the same bodies",
  text="Histories: every sequence of menu operations up to the depth bound is executed on fresh shared values and after each operation the shared values' memory must be unchanged and the result equal to the history-free result. Schedules: for every scenario every interleaving within the preemption bound is executed on the real code and each thread's result must equal the sequential one (no deadlock). Races below statement granularity are left to the free-running race detector pass, which must be silent.",
  note="History depth 2 (quick) / 4 (thorough); preemption bound 1 (thorough: 2 on a subset); statement-granularity scheduling points in the repository's own code only; blocking on real locks is reported as unexplored (exhaustive:false), never as a violation; regexp internals trusted. Instrumentation by go build -overlay from the current tree, self-tested with the repository's tests.",
  ref="DESIGN.md 3.5, 4 (C19)"),
}
