#!/usr/bin/env python3
"""Generates /verif/MANIFEST.json from the table below (kept valid at all times)."""
import json, os
ROOT = os.path.dirname(os.path.dirname(os.path.abspath(__file__)))
props = [json.loads(l) for l in open(os.path.join(ROOT, "properties.jsonl"))]

# id -> (technique, level text, level note, design ref)
CLAIMED = {}
exec(open(os.path.join(ROOT, "tools", "claims.py")).read())

checks, na = [], []
for p in props:
    pid = p["id"]
    if pid in CLAIMED:
        c = CLAIMED[pid]
        checks.append({
            "property_id": pid,
            "quick_cmd": f"./check.sh {pid} quick",
            "thorough_cmd": f"./check.sh {pid} thorough",
            "evidence_file": f"/verif/evidence/{pid}.json",
            "replay_cmd_template": "./check.sh replay {path}",
            "engine": "vcheck",
            "level_claimed": {"category": "model_checking", "text": c["text"], "design_ref": c["ref"]},
            "level_note": c["note"],
            "technique": c["technique"],
        })
    else:
        na.append({"property_id": pid, "reason": NOT_CLAIMED.get(pid, "check not built yet in this round; no claim is made")})

m = {
    "version": 1,
    "setup_cmd": "./check.sh setup",
    "hooks": {
        "guard": "verif_instr",
        "enable": "./check.sh C06|C19 ... runs cmd/vinstr and then `go build -tags verif_instr -overlay /verif/.work/bin-<Cxx>/overlay.json` (statement points, the vpoint package, VerifGlobals accessors and the CLI server are injected by overlay at build time; /repo contains no hook lines, guarded or not, so source_commits is empty and the suite with the guard off is simply the repository's suite)",
        "baseline_off_cmd": "cd /repo && GOFLAGS=-mod=mod go test -vet=off -count=1 ./...",
        "source_commits": [],
        "add_only": True,
    },
    "engines": [
        {"name": "vcheck", "path": "/verif/cmd/vcheck", "serves_properties": sorted(CLAIMED),
         "kind_free_text": "hand-written bounded-exhaustive explorer: grammar/all-strings enumeration of inputs, O(N^2) decision of all triples, reference models in Go, explicit-state history search and a cooperative-scheduler interleaving explorer over overlay-instrumented sources"},
    ],
    "checks": checks,
    "not_applicable": na,
    "notes": "See DESIGN.md. Known genuine defects are listed in known_findings.json and printed as KNOWN-FINDING lines.",
}
json.dump(m, open(os.path.join(ROOT, "MANIFEST.json"), "w"), indent=1)
print("claimed:", sorted(CLAIMED), "not claimed:", [x["property_id"] for x in na])
