#!/usr/bin/env python3
# usage: dumpnew.py Cxx tier [scope-filter]
import json,sys,glob
prop,tier=sys.argv[1],sys.argv[2]
flt=sys.argv[3] if len(sys.argv)>3 else ''
for f in sorted(glob.glob(f'/verif/.work/run-{prop}-{tier}/*.json')):
    o=json.load(open(f))
    for sc,m in (o.get('per_scope') or {}).items():
        for k,v in m.items():
            if k.startswith('new_') and flt in sc: print(sc,k,v)
    for v in (o.get('new') or []):
        if flt in v['scope']: print('   ',v['scope'],v['kind'],v['inputs'],'|',v['got'][:110])
