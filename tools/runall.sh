#!/bin/bash
# runs every check of a tier on the current tree and prints a one-line summary per property
tier="${1:-quick}"
cd "$(dirname "$0")/.."
for i in $(seq -w 1 20); do
  p="C$i"
  s=$(date +%s)
  out=$(./check.sh $p $tier 2>&1); rc=$?
  e=$(( $(date +%s) - s ))
  echo "$p rc=$rc ${e}s $(echo "$out" | grep -c '^KNOWN-FINDING') known; $(echo "$out" | grep -E "^$p $tier" | cut -c1-160)"
  echo "$out" | grep -E 'VIOLATION|INTERNAL|INCOMPLETE|BUILD-ERROR' | head -3 | cut -c1-250
done
