#!/bin/bash
# usage: SEEDROOT=/tmp/seed2 tools/eval_seed.sh <Cxx> <A|B> <label>
# verifies a seeded change (scratch worktree), then applies it to /repo, runs the checks, reverts,
# and stores patch + demo + meta.json under /verif/seeded/<label>/.
id="$1"; x="$2"; label="$3"
root=${SEEDROOT:-/tmp/seed}
# LANE=<n>: evaluate in /tmp/lane<n>/{repo,verif} (tools/mklane.sh) instead of /repo and /verif
V=/verif; R=/repo
if [ -n "${LANE:-}" ]; then V=/tmp/lane$LANE/verif; R=/tmp/lane$LANE/repo; fi
cd $V
v=$(SEEDROOT=$root /verif/tools/verify_seed.sh $id $x 2>/dev/null | tail -1)
echo "verify: $v"
ok=$(echo "$v" | python3 -c "import json,sys; d=json.loads(sys.stdin.read()); print(int(d.get('applies_to_head') and d.get('demo_on_clean')=='pass' and d.get('demo_with_change')=='fail' and d.get('suite_with_change')=='pass'))")
if [ "$ok" != 1 ]; then echo "SKIP $label (not a valid seed on HEAD)"; exit 0; fi
patch=$root/$id/$x.patch.diff
git -C $R apply "$patch" || exit 3
trap "git -C $R checkout -- . ; git -C $R clean -fdq" EXIT
caught=""
details=""
run() {
  out=$(timeout 1500 ./check.sh $1 $2 2>&1); rc=$?
  if [ $rc -eq 1 ] && echo "$out" | grep -q '^VIOLATION'; then
    caught="$caught $1:$2"
    details="$details$(echo "$out" | grep -A1 '^VIOLATION' | grep -v '^VIOLATION' | head -1 | cut -c1-300)\n"
  fi
  echo "  $1 $2 rc=$rc"
}
run $id quick
if [ -z "$caught" ]; then
  for p in $(seq -w 1 20); do [ "C$p" != "$id" ] && run C$p quick; done
fi
if [ -z "$caught" ]; then run $id thorough; fi
git -C $R checkout -- . ; git -C $R clean -fdq
mkdir -p /verif/seeded/$label; cd /verif
cp $patch seeded/$label/patch.diff
cp $root/$id/$x.demo_test.go seeded/$label/demo_test.go 2>/dev/null
cp $root/$id/$x.notes.md seeded/$label/notes.md 2>/dev/null
python3 - "$label" "$id" "$v" "$caught" "$details" <<'PY'
import json,sys,subprocess
label,pid,v,caught,details=sys.argv[1:6]
head=subprocess.check_output(['git','-C','/repo','log','--format=%h','-1']).decode().strip()
notes=open(f'/verif/seeded/{label}/notes.md').read() if True else ''
meta={"seed":label,"breaks_property":pid,"repo_head_when_evaluated":head,
 "verified":json.loads(v),
 "what_i_ran":["tools/verify_seed.sh (scratch worktree: apply, full suite, demo with/without)", f"git -C /repo apply patch.diff; ./check.sh {pid} quick (then all other quick checks, then {pid} thorough, until one reports VIOLATION); git -C /repo checkout -- ."],
 "caught_by":caught.split(),
 "first_violation_line":details.replace('\\n','\n').strip().split('\n')[0] if details else "",
 "needs_to_manifest":"see notes.md (written by the independent sub-agent that produced the change)"}
json.dump(meta,open(f'/verif/seeded/{label}/meta.json','w'),indent=1)
print("RESULT",label,"caught_by=",caught or "NONE")
PY
