#!/bin/bash
# usage: trymutant.sh <patch.diff> <Cxx> [Cyy...]   (applies to /repo, runs quick checks, reverts)
patch="$1"; shift
cd /repo || exit 2
if ! git apply --check "$patch" 2>/dev/null; then
  if git apply --check -3 "$patch" 2>/dev/null; then :; else echo "PATCH-DOES-NOT-APPLY $patch"; exit 3; fi
fi
git apply "$patch" || exit 3
trap 'git -C /repo checkout -- . ; git -C /repo clean -fdq' EXIT
for p in "$@"; do
  out=$(cd /verif && ./check.sh $p ${TIER:-quick} 2>&1)
  rc=$?
  echo "== $p rc=$rc"
  echo "$out" | grep -E 'VIOLATION|BUILD-ERROR|INTERNAL' | head -4
  echo "$out" | grep -A1 VIOLATION | grep -v VIOLATION | head -3
done
