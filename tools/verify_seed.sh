#!/bin/bash
# usage: verify_seed.sh <Cxx> <A|B>
# Confirms in a scratch worktree (outside /repo and /verif) that the seeded change applies to the
# current HEAD, keeps the repository's own test suite green, and that its demonstration fails with
# the change and passes without it. Prints a JSON line.
id="$1"; x="$2"
src=${SEEDROOT:-/tmp/seed}/$id
wt=/tmp/wt/verify-$id-$x
export GOFLAGS=-mod=mod GOPROXY=off
git -C /repo worktree remove --force "$wt" >/dev/null 2>&1
git -C /repo worktree add -q --detach "$wt" HEAD || { echo "{\"id\":\"$id-$x\",\"error\":\"worktree\"}"; exit 1; }
cleanup() { git -C /repo worktree remove --force "$wt" >/dev/null 2>&1; }
trap cleanup EXIT
cd "$wt"
applies=true
git apply --check "$src/$x.patch.diff" 2>/dev/null || applies=false
if [ "$applies" = false ]; then echo "{\"id\":\"$id-$x\",\"applies_to_head\":false}"; exit 0; fi
# where does the demo go? take the package clause + notes
demo="$src/$x.demo_test.go"
pkgline=$(grep -m1 '^package ' "$demo" | awk '{print $2}')
declared=$(grep -m1 -oE '^DEMO_DIR: *[^ ]+' "$src/$x.notes.md" | sed 's/^DEMO_DIR: *//; s#^/*##; s#/*$#/#')
dir=${DEMODIR:-${declared:-$(grep -oE 'pkg/[a-z/]+/|cmd/' "$src/$x.notes.md" | head -1)}}
[ "$pkgline" = main ] && dir=cmd/
[ -z "$dir" ] && dir=$(git apply --numstat "$src/$x.patch.diff" | awk '{print $3}' | head -1 | xargs dirname)/
cp "$demo" "$wt/${dir}zz_seed_demo_test.go"
names=$(grep -oE '^func (Test[A-Za-z0-9_]+)' "$demo" | awk '{print $2}' | paste -sd'|')
pat="^(${names:-Demo})\$"
demo_clean=$(go test -vet=off -count=1 -run "$pat" "./$dir" >/dev/null 2>&1 && echo pass || echo fail)
git apply "$src/$x.patch.diff"
demo_mut=$(go test -vet=off -count=1 -run "$pat" "./$dir" >/dev/null 2>&1 && echo pass || echo fail)
if [ "$demo_mut" = pass ]; then
  # demonstrations of data races only fail under the race detector
  for k in 1 2 3; do
    go test -race -vet=off -count=1 -run "$pat" "./$dir" >/dev/null 2>&1 || { demo_mut=fail; break; }
  done
fi
rm -f "$wt/${dir}zz_seed_demo_test.go"
suite=$(go test -vet=off -count=1 ./... >/dev/null 2>&1 && echo pass || echo fail)
echo "{\"id\":\"$id-$x\",\"applies_to_head\":true,\"demo_dir\":\"$dir\",\"demo_on_clean\":\"$demo_clean\",\"demo_with_change\":\"$demo_mut\",\"suite_with_change\":\"$suite\"}"
