#!/bin/bash
# usage: tools/mklane.sh <n>   - builds /tmp/lane<n>/{repo,verif}: a clone of /repo at HEAD and a copy
# of /verif whose every reference to /repo points at the clone, so that seeded changes can be
# evaluated in parallel (tools/eval_seed.sh with LANE=<n>). Scratch only; removed with rm -rf.
n="$1"; L=/tmp/lane$n
rm -rf "$L"; mkdir -p "$L"
git clone -q /repo "$L/repo" || exit 1
rsync -a --exclude .work --exclude replay --exclude .git /verif/ "$L/verif/"
cd "$L/verif"
sed -i "s#=> /repo#=> $L/repo#" go.mod
sed -i "s#/repo#$L/repo#g" check.sh props/c14.go
sed -i "s#flag.String(\"repo\", \"/repo\"#flag.String(\"repo\", \"$L/repo\"#" cmd/vinstr/main.go
mkdir -p .work replay
echo "$L ready"
