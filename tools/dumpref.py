#!/usr/bin/env python3
import json,glob,sys
from collections import Counter
prop,tier=sys.argv[1],sys.argv[2]
c=Counter(); ex={}
for f in glob.glob(f'/verif/.work/run-{prop}-{tier}/*.json'):
    o=json.load(open(f))
    for v in o.get('new') or []:
        k=(v['scope'],v['kind'],v.get('note'),v['expected'],v['got'][:60])
        c[k]+=1
        ex.setdefault(k,v['inputs'])
    for sc,m in o['per_scope'].items():
        for k,n in m.items():
            if 'new_' in k: c[('TOTAL',sc,k)]+=n
for k,n in sorted(c.items(),key=lambda x:str(x)): print(n,k,ex.get(k))
