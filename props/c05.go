package props

import (
	"fmt"
	"strconv"
	"strings"

	"verif/engine/core"
	"verif/engine/eco"
)

// A shorthand instance: the range text and its documented interval [lo, hi) / [lo, hi].
type c05Inst struct {
	construct string
	rng       string
	lo        string // "" = unbounded
	loIncl    bool
	hi        string // "" = unbounded
	hiIncl    bool
	negate    bool  // the range is the complement of the interval (pypi !=X.*)
	hiCore    []int // numeric tuple of an exclusive upper bound, for the don't-care rule
}

func itoa(i int) string { return strconv.Itoa(i) }

func v3(a, b, c int) string { return itoa(a) + "." + itoa(b) + "." + itoa(c) }

func joinInts(t []int) string {
	s := make([]string, len(t))
	for i, x := range t {
		s[i] = itoa(x)
	}
	return strings.Join(s, ".")
}

func intTuples(vals []int, k int) [][]int {
	out := [][]int{{}}
	for i := 0; i < k; i++ {
		var next [][]int
		for _, p := range out {
			for _, v := range vals {
				next = append(next, append(append([]int{}, p...), v))
			}
		}
		out = next
	}
	return out
}

// c05Bigs: component values at which width- and magnitude-dependent shortcuts change behaviour.
func c05Bigs(lvl int) []int {
	if lvl > 0 {
		return []int{10, 65535, 65536, 4294967295, 4294967296}
	}
	return []int{10, 65535, 65536}
}

// bigTuples: every k-tuple over {0,1} with exactly one position replaced by a big value.
func bigTuples(k, lvl int) [][]int {
	var out [][]int
	for _, b := range c05Bigs(lvl) {
		for pos := 0; pos < k; pos++ {
			for _, t := range intTuples([]int{0, 1}, k-1) {
				u := append(append(append([]int{}, t[:pos]...), b), t[pos:]...)
				out = append(out, u)
			}
		}
	}
	return out
}

func uniqInts(a []int) []int {
	seen := map[int]bool{}
	var out []int
	for _, x := range a {
		if !seen[x] {
			seen[x] = true
			out = append(out, x)
		}
	}
	return out
}

func pad3(t []int) (int, int, int) {
	x := []int{0, 0, 0}
	copy(x, t)
	return x[0], x[1], x[2]
}

// caretUpper: the SemVer caret rule (left-most non-zero component is bumped), on 1-3 given components.
func caretUpper(t []int) []int {
	a, b, c := pad3(t)
	switch {
	case a > 0:
		return []int{a + 1, 0, 0}
	case len(t) == 1:
		return []int{1, 0, 0}
	case b > 0:
		return []int{0, b + 1, 0}
	case len(t) == 2:
		return []int{0, 1, 0}
	default:
		return []int{0, 0, c + 1}
	}
}

func tildeUpper(t []int) []int {
	a, b, _ := pad3(t)
	if len(t) == 1 {
		return []int{a + 1, 0, 0}
	}
	return []int{a, b + 1, 0}
}

func c05Instances(name string, lvl int) []c05Inst {
	vals := []int{0, 1, 2}
	if lvl > 0 {
		vals = []int{0, 1, 2, 9}
	}
	var out []c05Inst
	add := func(i c05Inst) { out = append(out, i) }
	// small tuples plus tuples over {0,1} with one multi-digit / 2^16 / 2^32 boundary component
	tuples := func(k int) [][]int { return append(intTuples(vals, k), bigTuples(k, lvl)...) }
	t3 := tuples(3)
	t2 := tuples(2)
	t1 := tuples(1)
	sem := func(t []int) string { a, b, c := pad3(t); return v3(a, b, c) }
	switch name {
	case "npm":
		for _, t := range t3 {
			base := joinInts(t)
			add(c05Inst{construct: "^X.Y.Z", rng: "^" + base, lo: base, loIncl: true, hi: sem(caretUpper(t)) + "-0"})
			add(c05Inst{construct: "~X.Y.Z", rng: "~" + base, lo: base, loIncl: true, hi: sem(tildeUpper(t)) + "-0"})
			for _, pre := range []string{"-alpha.2", "-0", "-rc", "+build.5", "-rc.1+b-1", "-RC.1", "-Beta"} {
				add(c05Inst{construct: "^X.Y.Z-pre", rng: "^" + base + pre, lo: base + pre, loIncl: true, hi: sem(caretUpper(t)) + "-0"})
				add(c05Inst{construct: "~X.Y.Z-pre", rng: "~" + base + pre, lo: base + pre, loIncl: true, hi: sem(tildeUpper(t)) + "-0"})
			}
			for _, u := range t3 {
				if lvl == 0 && (u[1] != 0 || u[2] > 1) {
					continue
				}
				if u[1] > 10 || u[2] > 10 {
					continue // a big component of the upper operand only in the first position
				}
				add(c05Inst{construct: "A - B", rng: base + " - " + joinInts(u), lo: base, loIncl: true, hi: joinInts(u), hiIncl: true})
				if u[1] == 0 && u[2] <= 1 && t[2] <= 1 {
					// pre-release labels on either end are part of the bounds
					add(c05Inst{construct: "A-pre - B", rng: base + "-beta.2 - " + joinInts(u), lo: base + "-beta.2", loIncl: true, hi: joinInts(u), hiIncl: true})
					add(c05Inst{construct: "A - B-pre", rng: base + " - " + joinInts(u) + "-rc.1", lo: base, loIncl: true, hi: joinInts(u) + "-rc.1", hiIncl: true})
				}
			}
		}
		for _, t := range t2 {
			base := joinInts(t)
			add(c05Inst{construct: "^X.Y", rng: "^" + base, lo: sem(t), loIncl: true, hi: sem(caretUpper(t)) + "-0"})
			add(c05Inst{construct: "~X.Y", rng: "~" + base, lo: sem(t), loIncl: true, hi: sem(tildeUpper(t)) + "-0"})
			for _, x := range []string{"x", "X", "*"} {
				add(c05Inst{construct: "X.Y.x", rng: base + "." + x, lo: sem(t) + "-0", loIncl: true, hi: sem(tildeUpper(t)) + "-0"})
			}
		}
		for _, t := range t1 {
			base := joinInts(t)
			add(c05Inst{construct: "^X", rng: "^" + base, lo: sem(t), loIncl: true, hi: sem(caretUpper(t)) + "-0"})
			add(c05Inst{construct: "~X", rng: "~" + base, lo: sem(t), loIncl: true, hi: sem(tildeUpper(t)) + "-0"})
			for _, x := range []string{"x", "X", "*"} {
				add(c05Inst{construct: "X.x", rng: base + "." + x, lo: sem(t) + "-0", loIncl: true, hi: sem(tildeUpper(t)) + "-0"})
			}
		}
		add(c05Inst{construct: "*", rng: "*"})
	case "cargo":
		for _, t := range t3 {
			base := joinInts(t)
			add(c05Inst{construct: "^X.Y.Z", rng: "^" + base, lo: base, loIncl: true, hi: sem(caretUpper(t)), hiCore: caretUpper(t)})
			add(c05Inst{construct: "~X.Y.Z", rng: "~" + base, lo: base, loIncl: true, hi: sem(tildeUpper(t)), hiCore: tildeUpper(t)})
			for _, pre := range []string{"-alpha.2", "-0", "-rc", "+build.5", "-rc.1+b-1", "-RC.1", "-Beta"} {
				add(c05Inst{construct: "^X.Y.Z-pre", rng: "^" + base + pre, lo: base + pre, loIncl: true, hi: sem(caretUpper(t)), hiCore: caretUpper(t)})
				add(c05Inst{construct: "~X.Y.Z-pre", rng: "~" + base + pre, lo: base + pre, loIncl: true, hi: sem(tildeUpper(t)), hiCore: tildeUpper(t)})
			}
		}
		for _, t := range t2 {
			base := joinInts(t)
			add(c05Inst{construct: "^X.Y", rng: "^" + base, lo: sem(t), loIncl: true, hi: sem(caretUpper(t)), hiCore: caretUpper(t)})
			add(c05Inst{construct: "~X.Y", rng: "~" + base, lo: sem(t), loIncl: true, hi: sem(tildeUpper(t)), hiCore: tildeUpper(t)})
			add(c05Inst{construct: "X.Y.*", rng: base + ".*", lo: sem(t), loIncl: true, hi: sem(tildeUpper(t)), hiCore: tildeUpper(t)})
		}
		for _, t := range t1 {
			base := joinInts(t)
			add(c05Inst{construct: "^X", rng: "^" + base, lo: sem(t), loIncl: true, hi: sem(caretUpper(t)), hiCore: caretUpper(t)})
			add(c05Inst{construct: "~X", rng: "~" + base, lo: sem(t), loIncl: true, hi: sem(tildeUpper(t)), hiCore: tildeUpper(t)})
			add(c05Inst{construct: "X.*", rng: base + ".*", lo: sem(t), loIncl: true, hi: sem(tildeUpper(t)), hiCore: tildeUpper(t)})
		}
		add(c05Inst{construct: "*", rng: "*", lo: "0.0.0", loIncl: true})
	case "composer":
		for _, t := range t3 {
			base := joinInts(t)
			add(c05Inst{construct: "^X.Y.Z", rng: "^" + base, lo: base, loIncl: true, hi: sem(caretUpper(t)), hiCore: caretUpper(t)})
			add(c05Inst{construct: "~X.Y.Z", rng: "~" + base, lo: base, loIncl: true, hi: sem(tildeUpper(t)), hiCore: tildeUpper(t)})
			for _, pre := range []string{"-beta.1", "-beta1", "-RC2", "-alpha"} {
				add(c05Inst{construct: "^X.Y.Z-pre", rng: "^" + base + pre, lo: base + pre, loIncl: true, hi: sem(caretUpper(t)), hiCore: caretUpper(t)})
				add(c05Inst{construct: "~X.Y.Z-pre", rng: "~" + base + pre, lo: base + pre, loIncl: true, hi: sem(tildeUpper(t)), hiCore: tildeUpper(t)})
			}
			for _, u := range t3 {
				if lvl == 0 && (u[1] != 0 || u[2] > 1) {
					continue
				}
				if u[1] > 10 || u[2] > 10 {
					continue // a big component of the upper operand only in the first position
				}
				add(c05Inst{construct: "A - B", rng: base + " - " + joinInts(u), lo: base, loIncl: true, hi: joinInts(u), hiIncl: true})
			}
		}
		for _, t := range t2 {
			base := joinInts(t)
			add(c05Inst{construct: "^X.Y", rng: "^" + base, lo: sem(t), loIncl: true, hi: sem(caretUpper(t)), hiCore: caretUpper(t)})
			// composer: ~X.Y := >=X.Y <(X+1).0
			add(c05Inst{construct: "~X.Y", rng: "~" + base, lo: sem(t), loIncl: true, hi: v3(t[0]+1, 0, 0), hiCore: []int{t[0] + 1, 0, 0}})
			for _, x := range []string{"*", "x"} {
				add(c05Inst{construct: "X.Y.*", rng: base + "." + x, lo: sem(t), loIncl: true, hi: sem(tildeUpper(t)), hiCore: tildeUpper(t)})
			}
		}
		for _, t := range t1 {
			base := joinInts(t)
			for _, x := range []string{"*", "x"} {
				add(c05Inst{construct: "X.*", rng: base + "." + x, lo: sem(t), loIncl: true, hi: v3(t[0]+1, 0, 0), hiCore: []int{t[0] + 1, 0, 0}})
			}
		}
	case "conan":
		for _, t := range t3 {
			base := joinInts(t)
			if t[0] > 0 || t[1] > 0 { // Conan documents the caret only for a non-zero major or minor
				add(c05Inst{construct: "^X.Y.Z", rng: "^" + base, lo: base, loIncl: true, hi: sem(caretUpper(t)), hiCore: caretUpper(t)})
			}
			add(c05Inst{construct: "~X.Y.Z", rng: "~" + base, lo: base, loIncl: true, hi: sem(tildeUpper(t)), hiCore: tildeUpper(t)})
		}
		for _, t := range t2 {
			base := joinInts(t)
			if t[0] > 0 || t[1] > 0 {
				add(c05Inst{construct: "^X.Y", rng: "^" + base, lo: base, loIncl: true, hi: sem(caretUpper(t)), hiCore: caretUpper(t)})
			}
			add(c05Inst{construct: "~X.Y", rng: "~" + base, lo: base, loIncl: true, hi: sem(tildeUpper(t)), hiCore: tildeUpper(t)})
		}
		for _, t := range t1 {
			base := joinInts(t)
			add(c05Inst{construct: "~X", rng: "~" + base, lo: base, loIncl: true, hi: v3(t[0]+1, 0, 0), hiCore: []int{t[0] + 1, 0, 0}})
		}
	case "gem":
		// ~> drops the last segment and bumps the one before it
		for k := 1; k <= 4; k++ {
			for _, t := range tuples(k) {
				if k == 4 && (t[0] > 1 || (lvl == 0 && t[1] > 1)) {
					continue
				}
				base := joinInts(t)
				var hi []int
				if k == 1 {
					hi = []int{t[0] + 1}
				} else {
					hi = append(append([]int{}, t[:k-2]...), t[k-2]+1)
				}
				for _, sp := range []string{"~>", "~> "} {
					add(c05Inst{construct: fmt.Sprintf("~> %d segments", k), rng: sp + base, lo: base, loIncl: true, hi: joinInts(hi), hiCore: hi})
				}
			}
		}
	case "hex":
		for _, t := range t3 {
			base := joinInts(t)
			add(c05Inst{construct: "~>X.Y.Z", rng: "~> " + base, lo: base, loIncl: true, hi: sem(tildeUpper(t)), hiCore: tildeUpper(t)})
			for _, pre := range []string{"-rc.1", "-0", "-dev", "+build.5", "-RC.1"} {
				add(c05Inst{construct: "~>X.Y.Z-pre", rng: "~> " + base + pre, lo: base + pre, loIncl: true, hi: sem(tildeUpper(t)), hiCore: tildeUpper(t)})
			}
		}
		for _, t := range t2 {
			base := joinInts(t)
			add(c05Inst{construct: "~>X.Y", rng: "~> " + base, lo: sem(t), loIncl: true, hi: v3(t[0]+1, 0, 0), hiCore: []int{t[0] + 1, 0, 0}})
			add(c05Inst{construct: "~>X.Y", rng: "~>" + base, lo: sem(t), loIncl: true, hi: v3(t[0]+1, 0, 0), hiCore: []int{t[0] + 1, 0, 0}})
		}
	case "pypi":
		for k := 2; k <= 4; k++ {
			for _, t := range tuples(k) {
				if k == 4 && (t[0] > 1 || (lvl == 0 && t[1] > 1)) {
					continue
				}
				base := joinInts(t)
				hi := append(append([]int{}, t[:k-2]...), t[k-2]+1)
				add(c05Inst{construct: fmt.Sprintf("~= %d segments", k), rng: "~=" + base, lo: base, loIncl: true, hi: joinInts(hi), hiCore: hi})
				if k <= 3 {
					// a post-release base keeps its suffix in the lower bound: ~=2.2.post1 is >=2.2.post1, ==2.*
					add(c05Inst{construct: fmt.Sprintf("~= %d segments, post-release base", k), rng: "~=" + base + ".post1", lo: base + ".post1", loIncl: true, hi: joinInts(hi), hiCore: hi})
				}
			}
		}
		for k := 1; k <= 3; k++ {
			for _, t := range tuples(k) {
				base := joinInts(t)
				hi := append(append([]int{}, t[:k-1]...), t[k-1]+1)
				add(c05Inst{construct: fmt.Sprintf("==%d.* prefix", k), rng: "==" + base + ".*", lo: base, loIncl: true, hi: joinInts(hi), hiCore: hi})
				add(c05Inst{construct: fmt.Sprintf("!=%d.* prefix", k), rng: "!=" + base + ".*", lo: base, loIncl: true, hi: joinInts(hi), hiCore: hi, negate: true})
			}
		}
	case "nuget", "maven":
		for _, a := range t2 {
			for _, b := range t2 {
				if lvl == 0 && (a[1] > 1 || b[1] > 1) {
					continue
				}
				x, y := joinInts(a), joinInts(b)
				add(c05Inst{construct: "[a,b]", rng: "[" + x + "," + y + "]", lo: x, loIncl: true, hi: y, hiIncl: true})
				add(c05Inst{construct: "(a,b)", rng: "(" + x + "," + y + ")", lo: x, hi: y})
				add(c05Inst{construct: "[a,b)", rng: "[" + x + "," + y + ")", lo: x, loIncl: true, hi: y})
				add(c05Inst{construct: "(a,b]", rng: "(" + x + "," + y + "]", lo: x, hi: y, hiIncl: true})
			}
			x := joinInts(a)
			add(c05Inst{construct: "[a]", rng: "[" + x + "]", lo: x, loIncl: true, hi: x, hiIncl: true})
			add(c05Inst{construct: "[a,)", rng: "[" + x + ",)", lo: x, loIncl: true})
			add(c05Inst{construct: "(a,)", rng: "(" + x + ",)", lo: x})
			add(c05Inst{construct: "(,b]", rng: "(," + x + "]", hi: x, hiIncl: true})
			add(c05Inst{construct: "(,b)", rng: "(," + x + ")", hi: x})
			if name == "nuget" {
				add(c05Inst{construct: "bare a (minimum)", rng: x, lo: x, loIncl: true})
			}
		}
		for _, t := range t3 {
			if lvl == 0 && t[2] > 1 {
				continue
			}
			x := joinInts(t)
			add(c05Inst{construct: "[a]", rng: "[" + x + "]", lo: x, loIncl: true, hi: x, hiIncl: true})
			add(c05Inst{construct: "(,b)", rng: "(," + x + ")", hi: x})
			add(c05Inst{construct: "[a,)", rng: "[" + x + ",)", lo: x, loIncl: true})
		}
	}
	return out
}

var c05Ecos = []string{"npm", "cargo", "composer", "conan", "gem", "hex", "pypi", "nuget", "maven"}

// c05Probes: the grid around every boundary, as release / lowest pre-release / middle pre-release.
func c05Probes(name string, lvl int) (strs []string, cores [][]int, pre []bool) {
	grid := []int{0, 1, 2, 3, 9, 10}
	if lvl > 0 {
		grid = []int{0, 1, 2, 3, 8, 9, 10, 11}
	} else {
		grid = append(grid, 11)
	}
	for _, b := range c05Bigs(lvl) {
		if b > 11 {
			grid = append(grid, b-1, b, b+1)
		}
	}
	grid = uniqInts(grid)
	var preSuffix []string
	switch name {
	case "npm", "cargo", "hex", "conan":
		preSuffix = []string{"-0", "-alpha.1", "-alpha.3", "-rc.1"}
	case "nuget":
		preSuffix = []string{"-0", "-alpha.1", "-rc.1"}
	case "gem":
		preSuffix = []string{".a", ".rc1"}
	case "maven":
		preSuffix = []string{"-alpha-1", "-SNAPSHOT"}
	case "pypi":
		preSuffix = nil // '~=' and '.*' are claimed for final and post releases only
	case "composer":
		preSuffix = nil // stable probes only
	}
	for _, t := range intTuples(grid, 3) {
		s := joinInts(t)
		strs, cores, pre = append(strs, s), append(cores, t), append(pre, false)
		if (t[1] <= 3 || t[1] > 11) && (t[2] <= 3 || t[2] > 11) {
			for _, p := range preSuffix {
				strs, cores, pre = append(strs, s+p), append(cores, t), append(pre, true)
			}
		}
		if name == "pypi" && t[2] <= 2 {
			strs, cores, pre = append(strs, s+".post1"), append(cores, t), append(pre, false)
		}
	}
	// shorter and longer arities
	for _, t := range intTuples([]int{0, 1, 2, 3, 10}, 2) {
		switch name {
		case "gem", "pypi", "nuget", "maven", "conan", "composer":
			strs, cores, pre = append(strs, joinInts(t)), append(cores, t), append(pre, false)
		}
	}
	for _, t := range intTuples([]int{0, 1, 2, 3, 10}, 1) {
		switch name {
		case "gem", "pypi", "nuget", "maven", "conan", "composer":
			strs, cores, pre = append(strs, joinInts(t)), append(cores, t), append(pre, false)
		}
	}
	for _, t := range intTuples([]int{0, 1, 2}, 4) {
		switch name {
		case "gem", "pypi", "nuget", "maven", "composer", "conan":
			strs, cores, pre = append(strs, joinInts(t)), append(cores, t), append(pre, false)
		}
	}
	return
}

func sameCore(a, b []int) bool {
	n := len(a)
	if len(b) > n {
		n = len(b)
	}
	for i := 0; i < n; i++ {
		x, y := 0, 0
		if i < len(a) {
			x = a[i]
		}
		if i < len(b) {
			y = b[i]
		}
		if x != y {
			return false
		}
	}
	return true
}

func c05Expect(e eco.Eco, in c05Inst, pv eco.Ver) (want bool, ok bool) {
	inside := true
	if in.lo != "" {
		lo, err := eco.SafeParse(e, in.lo)
		if err != nil {
			return false, false
		}
		c, p := eco.SafeCompare(pv, lo)
		if p != nil {
			return false, false
		}
		if c < 0 || (c == 0 && !in.loIncl) {
			inside = false
		}
	}
	if in.hi != "" {
		hi, err := eco.SafeParse(e, in.hi)
		if err != nil {
			return false, false
		}
		c, p := eco.SafeCompare(pv, hi)
		if p != nil {
			return false, false
		}
		if c > 0 || (c == 0 && !in.hiIncl) {
			inside = false
		}
	}
	if in.negate {
		inside = !inside
	}
	return inside, true
}

const c05Shards = 4

func c05ShardOf(rng string) int {
	i := 0
	for i < len(rng) && (rng[i] < '0' || rng[i] > '9') {
		i++
	}
	h := 0
	for ; i < len(rng) && rng[i] >= '0' && rng[i] <= '9'; i++ {
		h = (h*31 + int(rng[i]-'0') + 1) % 1000003
	}
	return h % c05Shards
}

func c05Unit(name string, lvl, shard int) core.Unit {
	return core.Unit{Name: fmt.Sprintf("C05/%s/%d", name, shard), Weight: 10, Run: func(r *core.Result) {
		e := eco.ByName(name)
		pstrs, pcores, ppre := c05Probes(name, lvl)
		pvs := make([]eco.Ver, len(pstrs))
		for i, s := range pstrs {
			v, err := eco.SafeParse(e, s)
			if err == nil {
				pvs[i] = v
			}
		}
		var insts []c05Inst
		// shard by the first number written in the range, so that all arities and spellings of one
		// base (~3.4, ~3.4.0, ^3.4.0-rc) meet in one process, parsed before any is evaluated
		for _, in := range c05Instances(name, lvl) {
			if c05ShardOf(in.rng) == shard {
				insts = append(insts, in)
			}
		}
		r.Add("states", int64(len(insts)))
		// parse all ranges first, evaluate afterwards (so that ranges that share hidden state interfere)
		rgs := make([]eco.Rng, len(insts))
		for i, in := range insts {
			rg, err := eco.SafeParseRange(e, in.rng)
			if err != nil {
				r.Violate(core.Violation{Property: "C05", Scope: name, Kind: "rejected", Inputs: []string{in.rng, in.construct}, Expected: "documented shorthand parses", Got: "error: " + err.Error(), Note: in.construct})
				continue
			}
			rgs[i] = rg
		}
		for i, in := range insts {
			if rgs[i] == nil {
				continue
			}
			r.SetAdd("constructs", name+": "+in.construct)
			// the base itself, exactly as written in the range (pre-release / build / upper-case bases
			// are not on the probe grid)
			if in.lo != "" {
				if lv, err := eco.SafeParse(e, in.lo); err == nil {
					if want, ok := c05Expect(e, in, lv); ok {
						got, p := eco.SafeContains(rgs[i], lv)
						r.Add("evaluations", 1)
						if p != nil || got != want {
							r.Violate(core.Violation{Property: "C05", Scope: name, Kind: "membership", Inputs: []string{in.rng, in.lo, in.construct},
								Expected: fmt.Sprintf("Contains=%v (documented interval %s)", want, c05Describe(in)), Got: fmt.Sprintf("Contains=%v", got), Note: in.construct + ";base"})
						}
					}
				}
			}
			for k, pv := range pvs {
				if pv == nil {
					continue
				}
				// don't-care: pre-releases of an exclusive upper bound where the documentation states no pre-release floor
				if in.hiCore != nil && ppre[k] && sameCore(in.hiCore, pcores[k]) {
					r.Add("dont_care", 1)
					continue
				}
				want, ok := c05Expect(e, in, pv)
				if !ok {
					continue
				}
				got, p := eco.SafeContains(rgs[i], pv)
				r.Add("evaluations", 1)
				if want {
					r.Add("nontrivial", 1)
				}
				if p != nil || got != want {
					where := "interior"
					switch {
					case in.lo != "" && pstrs[k] == in.lo:
						where = "base"
					case want && !got:
						where = "inside-rejected"
					case !want && got:
						where = "outside-accepted"
					}
					r.Violate(core.Violation{Property: "C05", Scope: name, Kind: "membership", Inputs: []string{in.rng, pstrs[k], in.construct},
						Expected: fmt.Sprintf("Contains=%v (documented interval %s)", want, c05Describe(in)), Got: fmt.Sprintf("Contains=%v", got), Note: in.construct + ";" + where})
				}
			}
		}
		if len(insts) > 0 {
			in := insts[len(insts)/2]
			r.Sample("shorthand", map[string]any{"eco": name, "range": in.rng, "interval": c05Describe(in)})
		}
	}}
}

func c05Describe(in c05Inst) string {
	l, h := "(", ")"
	if in.loIncl {
		l = "["
	}
	if in.hiIncl {
		h = "]"
	}
	s := l + in.lo + ", " + in.hi + h
	if in.negate {
		s = "not " + s
	}
	return s
}

func init() {
	core.Register(&core.Prop{
		ID:    "C05",
		Title: "Shorthand range operators denote their documented intervals",
		Units: func(tier string) []core.Unit {
			var us []core.Unit
			for _, n := range c05Ecos {
				for sh := 0; sh < c05Shards; sh++ {
					us = append(us, c05Unit(n, level(tier), sh))
				}
			}
			return us
		},
		Replay: func(v *core.Violation) (bool, string) {
			e := eco.ByName(v.Scope)
			rg, err := eco.SafeParseRange(e, v.Inputs[0])
			if v.Kind == "rejected" {
				return err != nil, fmt.Sprint(err)
			}
			if err != nil {
				return true, "rejected: " + err.Error()
			}
			for lvl := 0; lvl < 2; lvl++ {
				for _, in := range c05Instances(v.Scope, lvl) {
					if in.rng != v.Inputs[0] || in.construct != v.Inputs[2] {
						continue
					}
					pv, err := eco.SafeParse(e, v.Inputs[1])
					if err != nil {
						return false, "probe not accepted"
					}
					want, ok := c05Expect(e, in, pv)
					if !ok {
						return false, "expectation not computable"
					}
					got, p := eco.SafeContains(rg, pv)
					return p != nil || got != want, fmt.Sprintf("Contains=%v want %v (%s)", got, want, c05Describe(in))
				}
			}
			return false, "instance not found"
		},
		Finalize: func(r *core.Result, tier string) map[string]any {
			return map[string]any{
				"states":                        r.Counters["states"],
				"transitions":                   r.Counters["evaluations"],
				"traces_validated_against_impl": r.Counters["evaluations"],
				"evaluations":                   r.Counters["evaluations"],
				"distinct_nontrivial":           r.Counters["nontrivial"],
				"dont_care_points":              r.Counters["dont_care"],
			}
		},
		Rule:        "for each of npm, cargo, composer, conan, gem, hex, pypi, nuget, maven: every documented shorthand construct x every base tuple over {0,1,2} (thorough {0,1,2,9}) of every documented arity, plus every tuple over {0,1} with one component replaced by 10, 65535 or 65536 (thorough also 4294967295, 4294967296) (zeros in leading positions included; pre-release bases where documented) is parsed and evaluated on a probe grid {0,1,2,3,9,10,11,65534..65537}^3 (thorough {0,1,2,3,8,9,10,11,65534..65537,4294967294..4294967297}^3) as release / lowest / middle pre-release plus 1-, 2- and 4-component probes; the expected membership is the documented interval [lo,hi) evaluated with the ecosystem's own Compare. Don't-care (counted, not checked): pre-releases of an exclusive upper bound where the documentation states no pre-release floor (cargo, composer, conan, gem, hex, pypi). Composer probes are stable versions, pypi probes final or post releases. All ranges of a unit are parsed before any is evaluated. distinct_nontrivial = evaluations whose expected membership is true.",
		Assumptions: []string{"the desugaring table is written from each ecosystem's documentation as restated in the property (npm ^1.2.3 = >=1.2.3 <2.0.0-0, gem ~>1.2.3 = >=1.2.3 <1.3, hex ~>2.1 = >=2.1.0 <3.0.0, pypi ~=2.2 = >=2.2 <3.0, ...)", "maven bare versions (soft requirements) are not claimed"},
	})
}
