package props

import (
	"fmt"
	"strings"

	"github.com/alowayed/go-univers/pkg/spec/vers"

	"verif/engine/core"
	"verif/engine/eco"
	"verif/engine/ref"
)

// versPools: strictly increasing version pools per VERS scheme (checked against the scheme's
// Compare at run time). The i-th constraint of a shape takes pool[2i+1]; every pool member is a
// probe, so each bound has a probe equal to it, one strictly below and one strictly above.
var versPools = map[string][][]string{}

func init() {
	sem1 := []string{"0.1.0", "0.5.0", "1.0.0", "1.0.1", "1.2.0", "1.5.0", "2.0.0", "2.1.0", "3.0.0", "3.5.0", "4.0.0", "4.5.0", "5.0.0", "6.0.0", "7.0.0", "8.0.0", "9.0.0"}
	sem2 := []string{"1.0.0-alpha", "1.0.0-alpha.1", "1.0.0-beta", "1.0.0-rc.1", "1.0.0", "1.0.1-0", "1.0.1", "1.1.0-alpha", "1.1.0", "2.0.0-rc.1", "2.0.0", "2.0.1", "2.10.0", "3.0.0-beta", "3.0.0", "10.0.0-rc.1", "10.0.0"}
	v := func(l []string) []string {
		o := make([]string, len(l))
		for i, s := range l {
			o[i] = "v" + s
		}
		return o
	}
	for _, s := range []string{"generic", "npm", "cargo"} {
		versPools[s] = [][]string{sem1, sem2}
	}
	goP2 := v(sem2)
	goP2[5] = "v1.0.1-0.20200101000000-abcdef123456"
	versPools["golang"] = [][]string{v(sem1), goP2}
	versPools["nuget"] = [][]string{
		{"0.1", "0.5", "1.0", "1.0.1", "1.0.1.1", "1.2", "1.5.0", "2.0", "2.1", "3.0.0", "3.5", "4.0", "4.5", "5.0", "6.0", "7.0", "8.0"},
		sem2,
	}
	versPools["deb"] = [][]string{
		{"0.1", "0.5", "1.0", "1.0.1", "1.2", "1.5", "2.0", "2.1", "3.0", "3.5", "4.0", "4.5", "5.0", "6.0", "7.0", "8.0", "9.0"},
		{"1.0~alpha", "1.0~rc1", "1.0", "1.0-1", "1.0-2", "1.0.1", "1.1~rc1", "1.1", "1.1+b1", "1.2-1", "1.10", "2.0", "1:0.1", "1:0.2", "1:1.0~rc1", "1:1.0", "2:0.1"},
	}
	versPools["rpm"] = [][]string{
		{"0.1", "0.5", "1.0", "1.0.1", "1.2", "1.5", "2.0", "2.1", "3.0", "3.5", "4.0", "4.5", "5.0", "6.0", "7.0", "8.0", "9.0"},
		{"1.0~alpha", "1.0~rc1", "1.0", "1.0-1", "1.0-2", "1.0^git1", "1.0.1", "1.1~rc1", "1.1", "1.1^git1", "1.2-1.el7", "1.10", "2.0", "1:0.1", "1:0.2", "1:1.0~rc1", "1:1.0", "2:0.1"},
	}
	versPools["gem"] = [][]string{
		{"0.1", "0.5", "1.0", "1.0.1", "1.2", "1.5.0", "2.0", "2.1", "3.0.0", "3.5", "4.0", "4.5", "5.0", "6.0", "7.0", "8.0", "9.0"},
		{"1.0.0.alpha", "1.0.0.beta", "1.0.0.beta2", "1.0.0.rc1", "1.0.0", "1.0.1.pre", "1.0.1", "1.1.0.alpha", "1.1.0", "2.0.0.rc1", "2.0.0", "2.0.1", "2.10.0", "3.0.0.beta", "3.0.0", "10.0.0.rc1", "10.0.0"},
	}
	versPools["maven"] = [][]string{
		{"0.1", "0.5", "1.0", "1.0.1", "1.2", "1.5", "2.0", "2.1", "3.0", "3.5", "4.0", "4.5", "5.0", "6.0", "7.0", "8.0", "9.0"},
		{"1.0-alpha-1", "1.0-beta-1", "1.0-rc1", "1.0-SNAPSHOT", "1.0", "1.0-sp1", "1.0.1", "1.1-alpha", "1.1", "2.0-RC1", "2.0", "2.0.1", "2.10", "3.0-beta", "3.0.Final", "10.0-rc1", "10.0"},
	}
	versPools["pypi"] = [][]string{
		{"0.1", "0.5", "1.0", "1.0.1", "1.2", "1.5", "2.0", "2.1", "3.0", "3.5", "4.0", "4.5", "5.0", "6.0", "7.0", "8.0", "9.0"},
		{"1.0a1", "1.0b1", "1.0rc1", "1.0", "1.0.post1", "1.1.dev1", "1.1a1", "1.1", "1.2", "2.0rc1", "2.0", "2.0.1", "2.10", "3.0b2", "3.0", "1!0.1", "1!1.0"},
		{"1.0", "1.0.post1", "1.1", "1.2", "1.2.post2", "2.0", "2.0.1", "2.10", "3.0", "3.1", "4.0", "5.0", "6.0", "1!0.1", "1!1.0", "1!2.0", "2!0.1"},
	}
	// upper- and lower-case identifiers for the case-sensitive schemes (ASCII order: upper first)
	semCase := []string{"1.0.0-ALPHA", "1.0.0-Alpha", "1.0.0-BETA", "1.0.0-RC.1", "1.0.0-RC.2", "1.0.0-Rc.1", "1.0.0-alpha", "1.0.0-beta", "1.0.0-rc.1", "1.0.0", "1.0.1-A", "1.0.1-a", "1.0.1", "2.0.0-RC.1", "2.0.0-rc.1", "2.0.0", "3.0.0"}
	for _, s := range []string{"generic", "npm", "cargo"} {
		versPools[s] = append(versPools[s], semCase)
	}
	versPools["golang"] = append(versPools["golang"], v(semCase))
	versPools["deb"] = append(versPools["deb"], []string{"1.0A", "1.0B", "1.0Z", "1.0a", "1.0b", "1.0z", "1.1", "1.1A", "1.1RC1", "1.1a", "1.1rc1", "1.2", "1.2-1A", "1.2-1a", "2.0", "2.0A", "2.0a"})
	versPools["rpm"] = append(versPools["rpm"], []string{"1.0A", "1.0B", "1.0Z", "1.0a", "1.0b", "1.0z", "1.1", "1.1.A", "1.1.RC1", "1.1.a", "1.1.rc1", "1.2", "1.2-1.A", "1.2-1.a", "2.0", "2.0.A", "2.0.a"})
	versPools["alpine"] = [][]string{
		{"0.1", "0.5", "1.0", "1.0.1", "1.2", "1.5", "2.0", "2.1", "3.0", "3.5", "4.0", "4.5", "5.0", "6.0", "7.0", "8.0", "9.0"},
		{"1.0_alpha", "1.0_rc1", "1.0", "1.0-r1", "1.0_p1", "1.0.1", "1.1_rc1", "1.1", "1.1-r2", "1.2a", "1.10", "2.0_pre1", "2.0", "2.0.1", "3.0_beta", "3.0", "10.0"},
	}
}

// versAltSpellings: candidate spellings that may be Compare-equal to v in the scheme's ecosystem
// (verified with the real Compare before use).
func versAltSpellings(scheme, v string) []string {
	out := []string{v + ".0", v + "+b1", "v" + v, "0:" + v, v + "-r0", v + "-0", "0!" + v, strings.TrimPrefix(v, "v")}
	if strings.HasSuffix(v, ".0") {
		out = append(out, strings.TrimSuffix(v, ".0"))
	}
	if scheme == "golang" {
		out = append(out, v+"+incompatible")
	}
	return out
}

var versOps = []string{"<", "<=", ">", ">=", "=", "!="}

// versShapes enumerates every comparator sequence of length n whose bounds alternate validly.
func versShapes(n int) [][]string {
	var out [][]string
	var rec func(cur []string)
	rec = func(cur []string) {
		if len(cur) == n {
			if ref.VersShapeValid(cur) {
				out = append(out, append([]string{}, cur...))
			}
			return
		}
		for _, o := range versOps {
			next := append(cur, o)
			if !ref.VersShapeValid(next) {
				continue
			}
			rec(next)
		}
	}
	rec(nil)
	return out
}

func pypiIsPre(s string) bool {
	p, ok := ref.Pep440Parse(s)
	return ok && (p.PreKind != "" || p.HasDev)
}

// versExpect computes the reference membership for a range given as ops+versions and a probe.
func versExpect(scheme string, e eco.Eco, ops, vs []string, probe string) (want bool, tag string, ok bool) {
	pv, err := eco.SafeParse(e, probe)
	if err != nil {
		return false, "", false
	}
	cmp := make([]int, len(ops))
	for i := range ops {
		bv, err := eco.SafeParse(e, vs[i])
		if err != nil {
			return false, "", false
		}
		c, p := eco.SafeCompare(pv, bv)
		if p != nil {
			return false, "", false
		}
		cmp[i] = signOf(c)
	}
	want, tag = ref.VersContains(ops, cmp)
	if scheme == "pypi" && pypiIsPre(probe) {
		named := false
		for _, v := range vs {
			if pypiIsPre(v) {
				named = true
			}
		}
		if !named {
			return false, "pypi-prerelease-excluded-by-default", true
		}
	}
	return want, tag, true
}

func versRangeString(scheme string, ops, vs []string) string {
	parts := make([]string, len(ops))
	for i := range ops {
		parts[i] = ops[i] + vs[i]
	}
	return "vers:" + scheme + "/" + strings.Join(parts, "|")
}

// parseVersRange is the inverse of versRangeString (used by replay).
func parseVersRange(r string) (scheme string, ops, vs []string, ok bool) {
	if !strings.HasPrefix(r, "vers:") {
		return
	}
	rest := r[5:]
	i := strings.Index(rest, "/")
	if i < 0 {
		return
	}
	scheme = rest[:i]
	for _, c := range strings.Split(rest[i+1:], "|") {
		c = strings.ReplaceAll(c, " ", "")
		if c == "" {
			continue
		}
		op := ""
		for _, o := range []string{">=", "<=", "!=", ">", "<", "="} {
			if strings.HasPrefix(c, o) {
				op = o
				break
			}
		}
		if op == "" {
			return "", nil, nil, false
		}
		ops = append(ops, op)
		vs = append(vs, c[len(op):])
	}
	return scheme, ops, vs, true
}

func c04MaxN(tier string) int {
	if tier == "thorough" {
		return 8
	}
	return 4
}

func c04Unit(scheme string, n int) core.Unit {
	return core.Unit{Name: fmt.Sprintf("C04/%s/n%d", scheme, n), Weight: 1 << uint(2*n), Run: func(r *core.Result) {
		e := eco.ByName(eco.SchemeEco[scheme])
		shapes := versShapes(n)
		for pi, pool := range versPools[scheme] {
			// validate the pool
			var pvs []eco.Ver
			for _, s := range pool {
				v, err := eco.SafeParse(e, s)
				if err != nil {
					r.Internalf("C04 %s pool %d: %q rejected by the ecosystem: %v", scheme, pi, s, err)
					return
				}
				pvs = append(pvs, v)
			}
			for i := 0; i+1 < len(pvs); i++ {
				if c, p := eco.SafeCompare(pvs[i], pvs[i+1]); p != nil || c >= 0 {
					r.Internalf("C04 %s pool %d is not strictly increasing at %q,%q under the scheme's Compare (%d)", scheme, pi, pool[i], pool[i+1], c)
					return
				}
			}
			if n == 1 {
				// star
				for _, probe := range pool {
					got, err := vers.Contains("vers:"+scheme+"/*", probe)
					r.Add("evaluations", 1)
					if err != nil || !got {
						r.Violate(core.Violation{Property: "C04", Scope: scheme, Kind: "star", Inputs: []string{"vers:" + scheme + "/*", probe}, Expected: "true, nil", Got: fmt.Sprintf("%v, %v", got, err)})
					}
				}
			}
			if pi >= 2 && n > 6 && scheme != "pypi" {
				continue // the letter-case pools: up to 6 constraints
			}
			for _, ops := range shapes {
				vs := make([]string, n)
				for i := range vs {
					vs[i] = pool[2*i+1]
				}
				rs := versRangeString(scheme, ops, vs)
				r.Add("states", 1)
				probes := append([]string{}, pool[:min(len(pool), 2*n+2)]...)
				// Compare-equal alternative spellings of the bounds ('=' and '!=' must not be textual)
				for bi, b := range vs {
					if ops[bi] != "=" && ops[bi] != "!=" {
						continue
					}
					for _, alt := range versAltSpellings(scheme, b) {
						av, err := eco.SafeParse(e, alt)
						bv, err2 := eco.SafeParse(e, b)
						if err != nil || err2 != nil {
							continue
						}
						if c, p := eco.SafeCompare(av, bv); p == nil && c == 0 {
							probes = append(probes, alt)
						}
					}
				}
				for _, probe := range probes {
					want, tag, ok := versExpect(scheme, e, ops, vs, probe)
					if !ok {
						continue
					}
					got, err := func() (g bool, e error) {
						defer func() {
							if x := recover(); x != nil {
								e = fmt.Errorf("panic: %v", x)
							}
						}()
						return vers.Contains(rs, probe)
					}()
					r.Add("evaluations", 1)
					if want {
						r.Add("true_expected", 1)
					}
					r.SetAdd("rules", tag)
					if err != nil || got != want {
						r.Violate(core.Violation{Property: "C04", Scope: scheme, Kind: "containment",
							Inputs: []string{rs, probe}, Expected: fmt.Sprintf("%v (rule %s)", want, tag), Got: fmt.Sprintf("%v err=%v", got, err),
							Note: "shape=" + strings.Join(ops, " ") + ";rule=" + tag})
					}
				}
			}
			if n == 2 {
				r.Sample("range", map[string]any{"scheme": scheme, "range": versRangeString(scheme, []string{">=", "<"}, []string{pool[1], pool[3]}), "probe": pool[2]})
			}
		}
	}}
}

// c04CrossUnit: the SAME constraint text under different schemes, alternating, in one process.
// Version pairs whose order (or validity) differs between the schemes' ecosystems; the expected
// value is recomputed per scheme from that scheme's own Compare.
func c04CrossUnit() core.Unit {
	return core.Unit{Name: "C04/cross-scheme", Weight: 4, Run: func(r *core.Result) {
		pool := []string{"1.0.0", "1.0.0-1", "1.0.0-alpha", "1.0.0-sp", "1.0.0.1", "1.0.0-rc1", "1.0a", "1.0.post1", "1.0", "1.0.1", "0.9", "2.0.0", "1.0.0-10", "1.0.0-2", "1.0~rc1", "1.0.0+b", "v1.0.0", "1.0_p1", "1.0-r1", "1.0.0-SNAPSHOT", "1.0.0.rc1"}
		shapes := [][]string{{">=", "<="}, {"<", ">"}, {">", "<"}, {"<=", ">="}, {"=", "!="}, {">=", "!="}}
		order := append([]string{}, eco.Schemes...)
		for i := len(eco.Schemes) - 1; i >= 0; i-- {
			order = append(order, eco.Schemes[i]) // forward, then backward: every scheme follows every other
		}
		for _, a := range pool {
			for _, b := range pool {
				if a == b {
					continue
				}
				for _, ops0 := range shapes {
					text := ops0[0] + a + "|" + ops0[1] + b
					r.Add("states", 1)
					for _, scheme := range order {
						e := eco.ByName(eco.SchemeEco[scheme])
						va, e1 := eco.SafeParse(e, a)
						vb, e2 := eco.SafeParse(e, b)
						if e1 != nil || e2 != nil {
							continue
						}
						ops, vs := []string{ops0[0], ops0[1]}, []string{a, b}
						if c, p := eco.SafeCompare(va, vb); p != nil || c == 0 {
							continue
						} else if c > 0 {
							ops, vs = []string{ops0[1], ops0[0]}, []string{b, a}
						}
						if !ref.VersShapeValid(ops) {
							continue
						}
						rs := "vers:" + scheme + "/" + text
						for _, probe := range pool {
							want, tag, ok := versExpect(scheme, e, ops, vs, probe)
							if !ok {
								continue
							}
							got, err := func() (g bool, e error) {
								defer func() {
									if x := recover(); x != nil {
										e = fmt.Errorf("panic: %v", x)
									}
								}()
								return vers.Contains(rs, probe)
							}()
							r.Add("evaluations", 1)
							if want {
								r.Add("nontrivial", 1)
							}
							if err != nil || got != want {
								r.Violate(core.Violation{Property: "C04", Scope: scheme, Kind: "containment",
									Inputs: []string{rs, probe}, Expected: fmt.Sprintf("%v (rule %s)", want, tag), Got: fmt.Sprintf("%v err=%v", got, err),
									Note: "cross-scheme;shape=" + strings.Join(ops, " ") + ";rule=" + tag})
							}
						}
					}
				}
			}
		}
	}}
}

func init() {
	core.Register(&core.Prop{
		ID:    "C04",
		Title: "VERS containment is union-of-intervals under the scheme's order",
		Units: func(tier string) []core.Unit {
			var us []core.Unit
			for _, s := range eco.Schemes {
				for n := 1; n <= c04MaxN(tier); n++ {
					us = append(us, c04Unit(s, n))
				}
			}
			us = append(us, c04CrossUnit())
			return us
		},
		Replay: func(v *core.Violation) (bool, string) {
			scheme, ops, vs, ok := parseVersRange(v.Inputs[0])
			if v.Kind == "star" {
				got, err := vers.Contains(v.Inputs[0], v.Inputs[1])
				return err != nil || !got, fmt.Sprintf("%v, %v", got, err)
			}
			if !ok {
				return false, "unparsable replay range"
			}
			e := eco.ByName(eco.SchemeEco[scheme])
			if len(ops) == 2 { // the cross-scheme unit writes its two constraints in a fixed textual order
				if x, e1 := eco.SafeParse(e, vs[0]); e1 == nil {
					if y, e2 := eco.SafeParse(e, vs[1]); e2 == nil {
						if c, p := eco.SafeCompare(x, y); p == nil && c > 0 {
							ops, vs = []string{ops[1], ops[0]}, []string{vs[1], vs[0]}
						}
					}
				}
			}
			want, tag, ok := versExpect(scheme, e, ops, vs, v.Inputs[1])
			if !ok {
				return false, "expectation not computable"
			}
			got, err := vers.Contains(v.Inputs[0], v.Inputs[1])
			return err != nil || got != want, fmt.Sprintf("Contains=%v err=%v want %v (%s)", got, err, want, tag)
		},
		Finalize: func(r *core.Result, tier string) map[string]any {
			return map[string]any{
				"states":                        r.Counters["states"],
				"transitions":                   r.Counters["evaluations"],
				"traces_validated_against_impl": r.Counters["evaluations"],
				"evaluations":                   r.Counters["evaluations"],
				"distinct_nontrivial":           r.Counters["true_expected"],
				"max_constraints":               c04MaxN(tier),
			}
		},
		Rule:        "for each of the 11 schemes: every comparator sequence of length 1..n (quick 4, thorough 8) over {< <= > >= = !=} whose bounds alternate as the VERS spec requires, instantiated with increasing versions from 2-3 pools per scheme (plain releases; pre-releases and scheme-specific spellings), evaluated on every pool member up to just above the last bound and on every Compare-equal alternative spelling (.0 suffix, v / 0: / 0! prefix, -r0, +build) of every '=' / '!=' bound (each bound itself, a version strictly between each neighbouring pair, one below, one above); plus vers:<scheme>/*; plus a cross-scheme unit: every two-constraint text over 21 version spellings whose order or validity differs between ecosystems x 6 operator pairs, evaluated under all 11 schemes alternately (forward and backward) in one process. Expected value from the spec's interval semantics over the scheme's own Compare; pypi pre-/dev-release probes are expected excluded unless a constraint names a pre-release. distinct_nontrivial = evaluations whose expected value is true.",
		Assumptions: []string{"constraint versions are taken from fixed increasing pools (validated against the scheme's Compare on every run), not from all versions", "quick stops at 4 constraints; thorough reaches the 8 the property names (the letter-case pools stop at 6)"},
	})
}
