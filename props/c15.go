package props

import (
	"fmt"
	"regexp"
	"strings"

	"github.com/alowayed/go-univers/pkg/spec/vers"

	"verif/engine/cli"
	"verif/engine/core"
	"verif/engine/eco"
	"verif/engine/gen"
)

var resultForm = regexp.MustCompile(`^(-1|0|1|true|false)\n$`)

func looksLikeResult(out string) bool {
	if resultForm.MatchString(out) {
		return true
	}
	l, ok := parseQuotedList(out)
	return ok && len(l) > 0
}

// c15Pool: argument pool per ecosystem.
func c15Pool(name string) []string {
	b := gen.RangeBounds[name]
	syn := gen.SyntaxTable[name]
	pool := []string{b[0], b[1], b[2]}
	// a Compare-equal but textually different variant, when the ecosystem has one
	variants := map[string]string{"npm": "v1.0.0", "golang": "1.0.0", "nuget": "1.0", "pypi": "1.0.0", "debian": "0:1.0", "rpm": "0:1.0", "maven": "1.0.0", "gem": "1.0.0", "github": "v1.0.0", "mattermost": "v1.0.0", "composer": "v1.0.0", "conan": "1.0.0.0", "alpm": "0:1.0", "gentoo": "1.0-r0", "alpine": "1.0-r0", "hex": "1.0.0+b", "cargo": "1.0.0+b", "semver": "1.0.0+b", "apache": "1.0.0-RC", "cran": "1-0"}
	if v, ok := variants[name]; ok {
		pool = append(pool, v)
	}
	if len(syn.Ops) > 0 {
		pool = append(pool, ">="+b[0]+syn.SingleSuffix, "<"+b[2]+syn.SingleSuffix)
	} else {
		pool = append(pool, "["+b[0]+","+b[2]+")", "(,"+b[1]+"]")
	}
	pool = append(pool, "not-a-version!", "", " ", "-1", "--", "\""+b[0]+"\"", b[0]+" "+b[2], b[0]+"\n", "1.0%d", "2.0%s%%", "vers:"+c15Scheme(name)+"/>="+b[0]+"|<"+b[2])
	return pool
}

// c15Fingerprint: spellings on which the ecosystems' parsers and orders differ from one another.
var c15Fingerprint = []string{"1.0.0", "1.0", "v1.0.0", "1.0.0-dev", "1.0.0-alpha", "1.0.0-beta", "cci.20230101", "1.0.0-rc.1", "1.0.0.rc1", "1.0~rc1", "1.0_rc1", "1.0-r1",
	"1:1.0-1", "1.0-1", "1!1.0", "1.0.post1", "1.0-SNAPSHOT", "1.0a1", "2024.01.15", "1.0.0-esr", "1.0^git1", "1.0_p1", "1-0", "1.0.0+b", "v1.0.0-0.20200101000000-abcdef123456",
	"1.0.0-RC1", "dev-master", "1.0.0-1", "1.0.0-x", "1.0.1", "1.0-sp", "1.0.a", "01.0.0", "=1.0.0", "v1", "1"}

func c15Scheme(name string) string {
	switch name {
	case "debian":
		return "deb"
	case "semver":
		return "generic"
	}
	return name
}

type c15Env struct {
	r    *core.Result
	srv  *cli.Server
	proc bool
}

func (x *c15Env) call(argv []string) (cli.Resp, bool) {
	if x.proc {
		resp, err := cli.RunProcess(argv)
		if err != nil {
			x.r.Internalf("process: %v", err)
			return resp, false
		}
		return resp, true
	}
	resp, err := x.srv.Call(argv)
	if err != nil {
		x.r.Internalf("cli server: %v", err)
		return resp, false
	}
	return resp, true
}

// c15Expect computes what the CLI must print for an ecosystem command, by calling the library.
// ok=false: failure expected (exit 1, diagnostic). exact!="" : exact stdout expected.
func c15Expect(e eco.Eco, cmd string, args []string) (ok bool, exact string, sorted []eco.Ver) {
	switch cmd {
	case "compare":
		if len(args) != 2 {
			return false, "", nil
		}
		a, e1 := eco.SafeParse(e, args[0])
		b, e2 := eco.SafeParse(e, args[1])
		if e1 != nil || e2 != nil {
			return false, "", nil
		}
		c, p := eco.SafeCompare(a, b)
		if p != nil {
			return false, "", nil
		}
		return true, fmt.Sprintf("%d\n", c), nil
	case "contains":
		if len(args) != 2 {
			return false, "", nil
		}
		r, e1 := eco.SafeParseRange(e, args[0])
		v, e2 := eco.SafeParse(e, args[1])
		if e1 != nil || e2 != nil {
			return false, "", nil
		}
		c, p := eco.SafeContains(r, v)
		if p != nil {
			return false, "", nil
		}
		return true, fmt.Sprintf("%t\n", c), nil
	case "sort":
		if len(args) == 0 {
			return false, "", nil
		}
		var vs []eco.Ver
		for _, a := range args {
			v, err := eco.SafeParse(e, a)
			if err != nil {
				return false, "", nil
			}
			vs = append(vs, v)
		}
		return true, "", vs
	}
	return false, "", nil
}

func c15Check(x *c15Env, scope string, argv []string, ok bool, exact string, sortIn []eco.Ver) {
	r := x.r
	resp, live := x.call(argv)
	if !live {
		return
	}
	r.Add("evaluations", 1)
	viol := func(kind, exp string) {
		k := kind
		if x.proc {
			k += "-process"
		}
		r.Violate(core.Violation{Property: "C15", Scope: scope, Kind: k, Inputs: argv, Expected: exp, Got: fmt.Sprintf("code=%d panic=%q out=%q", resp.Code, resp.Panic, resp.Out)})
	}
	if resp.Panic != "" {
		viol("panic", "no panic")
		return
	}
	if !ok {
		r.SetAdd("outcomes", scope+":failure")
		if resp.Code != 1 || strings.TrimSpace(resp.Out) == "" || looksLikeResult(resp.Out) {
			viol("failure", "exit 1 and a diagnostic that is not a result form")
		}
		return
	}
	r.Add("nontrivial", 1)
	if resp.Code != 0 {
		viol("success", "exit 0 with output "+fmt.Sprintf("%q", exact))
		return
	}
	if strings.Count(resp.Out, "\n") != 1 || !strings.HasSuffix(resp.Out, "\n") {
		viol("one-line", "exactly one line on success")
		return
	}
	if sortIn == nil {
		r.SetAdd("outcomes", scope+":"+strings.TrimSpace(exact))
		if resp.Out != exact {
			viol("result", "stdout "+fmt.Sprintf("%q", exact)+" (library result)")
		}
		return
	}
	r.SetAdd("outcomes", scope+":sorted")
	out, okq := parseQuotedList(resp.Out)
	if !okq {
		viol("sort-format", "quoted, space-joined inputs")
		return
	}
	var in []string
	byStr := map[string]eco.Ver{}
	for _, v := range sortIn {
		in = append(in, v.String())
		byStr[v.String()] = v
	}
	if multisetKey(in) != multisetKey(out) {
		viol("sort-multiset", "the quoted inputs (String() of each parsed version), reordered")
		return
	}
	for i := 1; i < len(out); i++ {
		if c, p := eco.SafeCompare(byStr[out[i-1]], byStr[out[i]]); p != nil || c > 0 {
			viol("sort-order", "library order (non-decreasing under Compare)")
			return
		}
	}
}

func c15ArgVectors(pool []string, maxLen int) [][]string {
	out := [][]string{{}}
	for L := 1; L <= maxLen; L++ {
		out = append(out, tuples(pool, L)...)
	}
	return out
}

func c15EcoUnit(name string, tier string) core.Unit {
	return core.Unit{Name: "C15/" + name, Weight: 10, Run: func(r *core.Result) {
		srv, err := cli.Start()
		if err != nil {
			r.Internalf("cannot start CLI server: %v", err)
			return
		}
		defer srv.Close()
		x := &c15Env{r: r, srv: srv}
		px := &c15Env{r: r, proc: true}
		e := eco.ByName(name)
		pool := c15Pool(name)
		maxLen := 3
		sortLen := 3
		if tier == "thorough" {
			sortLen = 4
		}
		n := 0
		procStride := 97
		if tier == "thorough" {
			procStride = 23
		}
		for _, cmd := range []string{"compare", "contains", "sort"} {
			L := maxLen
			if cmd == "sort" {
				L = sortLen
			}
			vecs := c15ArgVectors(pool, L)
			if cmd == "sort" && tier == "thorough" {
				// length 5 over the valid versions and one invalid string only
				vecs = append(vecs, tuples(append(append([]string{}, pool[:4]...), "not-a-version!"), 5)...)
			}
			for _, args := range vecs {
				ok, exact, sorted := c15Expect(e, cmd, args)
				argv := append([]string{name, cmd}, args...)
				r.Add("states", 1)
				c15Check(x, name, argv, ok, exact, sorted)
				n++
				if n%procStride == 0 {
					c15Check(px, name, argv, ok, exact, sorted)
				}
			}
		}
		// routing fingerprint: characteristic spellings of all ecosystems, every ordered pair through
		// `compare`; a name wired to another ecosystem's implementation answers differently on at
		// least one pair (checked below against every other ecosystem of the library)
		for _, a := range c15Fingerprint {
			for _, b := range c15Fingerprint {
				ok, exact, _ := c15Expect(e, "compare", []string{a, b})
				r.Add("states", 1)
				c15Check(x, name, []string{name, "compare", a, b}, ok, exact, nil)
			}
		}
		for _, other := range gen.EcoNames {
			if other == name {
				continue
			}
			oe := eco.ByName(other)
			distinct := false
			for _, a := range c15Fingerprint {
				for _, b := range c15Fingerprint {
					ok1, ex1, _ := c15Expect(e, "compare", []string{a, b})
					ok2, ex2, _ := c15Expect(oe, "compare", []string{a, b})
					if ok1 != ok2 || ex1 != ex2 {
						distinct = true
					}
				}
			}
			if distinct {
				r.Add("fingerprint_distinguished_pairs", 1)
			} else {
				r.Notef("%s and %s answer identically on the routing fingerprint", name, other)
			}
		}
		// strings that are valid versions but invalid ranges (and the reverse) as arguments of
		// `contains`: a front end that "helpfully" falls back to the other parser shows here
		{
			var vNotR, rNotV []string
			cands := append(gen.Uniq(gen.Versions(name, 0)), gen.Uniq(gen.Ranges(name, 0))...)
			cands = append(cands, "[1.0", "1.0]", "(1.0", "1.0)", ">=1 >", "1.0.0 <", "1.0 -", "- 1.0", "1.0,", ",1.0", "1.0 ||", "|| 1.0")
			for _, s := range cands {
				if s == "" || s != strings.TrimSpace(s) {
					continue
				}
				_, ev := eco.SafeParse(e, s)
				_, er := eco.SafeParseRange(e, s)
				if ev == nil && er != nil && len(vNotR) < 12 {
					vNotR = append(vNotR, s)
				}
				if ev != nil && er == nil && len(rNotV) < 12 {
					rNotV = append(rNotV, s)
				}
			}
			r.AddScope(name, "version_not_range_strings", int64(len(vNotR)))
			r.AddScope(name, "range_not_version_strings", int64(len(rNotV)))
			for _, a := range append(append([]string{}, vNotR...), rNotV...) {
				for _, b := range append(append([]string{pool[0], pool[1]}, vNotR...), rNotV...) {
					for _, args := range [][]string{{a, b}, {b, a}} {
						for _, cmd := range []string{"contains", "compare"} {
							ok, exact, _ := c15Expect(e, cmd, args)
							r.Add("states", 1)
							c15Check(x, name, append([]string{name, cmd}, args...), ok, exact, nil)
						}
					}
				}
			}
		}
		// long arguments: the library has no length limit, so neither may the front end. Every
		// spelling below is judged by the library itself (accepted or not), at lengths straddling the
		// usual buffer sizes.
		for _, n := range []int{31, 65, 129, 257, 1025, 4097} {
			longs := []string{
				pool[0] + strings.Repeat(" ", n),
				strings.Repeat("0", n) + pool[0],
				pool[0] + "." + strings.Repeat("1.", n/2) + "1",
				pool[0] + "-" + strings.Repeat("a", n),
				pool[0] + "+" + strings.Repeat("b", n),
				pool[0] + strings.Repeat("1", n),
			}
			for _, lv := range longs {
				for _, t := range []struct {
					cmd  string
					args []string
				}{{"compare", []string{lv, pool[1]}}, {"compare", []string{pool[1], lv}}, {"contains", []string{pool[4], lv}}, {"sort", []string{pool[2], lv, pool[1]}}} {
					ok, exact, sorted := c15Expect(e, t.cmd, t.args)
					r.Add("states", 1)
					r.Add("long_argument_vectors", 1)
					c15Check(x, name, append([]string{name, t.cmd}, t.args...), ok, exact, sorted)
				}
			}
			for _, lr := range []string{pool[4] + strings.Repeat(" ", n), strings.Repeat(" ", n) + pool[5], ">=" + strings.Repeat("0", n) + pool[0] + gen.SyntaxTable[name].SingleSuffix} {
				ok, exact, _ := c15Expect(e, "contains", []string{lr, pool[1]})
				r.Add("states", 1)
				r.Add("long_argument_vectors", 1)
				c15Check(x, name, []string{name, "contains", lr, pool[1]}, ok, exact, nil)
			}
			// many arguments of ordinary length
			many := []string{}
			for i := 0; i < n/4; i++ {
				many = append(many, pool[i%3])
			}
			ok, exact, sorted := c15Expect(e, "sort", many)
			r.Add("states", 1)
			c15Check(x, name, append([]string{name, "sort"}, many...), ok, exact, sorted)
		}
		// argument order of contains: pools where swapping changes the outcome
		rg, ver := pool[4], pool[1]
		okA, exA, _ := c15Expect(e, "contains", []string{rg, ver})
		okB, exB, _ := c15Expect(e, "contains", []string{ver, rg})
		if okA == okB && exA == exB {
			r.Notef("%s: swapped contains arguments are indistinguishable for (%q,%q)", name, rg, ver)
		} else {
			r.Add("swap_sensitive_ecosystems", 1)
		}
		// unknown commands and missing command
		for _, cmd := range []string{"Compare", "", "version", "SORT", "help", "--help", "compare ", "so", "sor", "comp", "compar", "cont", "contain", "c", "s", "sorts", "compare2"} {
			for _, args := range [][]string{{}, {pool[0]}, {pool[0], pool[1]}} {
				argv := append([]string{name, cmd}, args...)
				r.Add("states", 1)
				c15Check(x, name, argv, false, "", nil)
			}
		}
		c15Check(x, name, []string{name}, false, "", nil)
		c15Check(px, name, []string{name}, false, "", nil)
		c15Check(px, name, []string{name, "compare", pool[0], pool[1]}, true, func() string { _, s, _ := c15Expect(e, "compare", []string{pool[0], pool[1]}); return s }(), nil)
		r.Sample("argv", map[string]any{"argv": []string{name, "contains", pool[4], pool[1]}})
	}}
}

func init() {
	core.Register(&core.Prop{
		ID:    "C15",
		Title: "The CLI is a faithful front end for the library",
		Units: func(tier string) []core.Unit {
			var us []core.Unit
			for _, n := range gen.EcoNames {
				us = append(us, c15EcoUnit(n, tier))
			}
			us = append(us, core.Unit{Name: "C15/vers-and-names", Weight: 10, Run: func(r *core.Result) {
				srv, err := cli.Start()
				if err != nil {
					r.Internalf("cannot start CLI server: %v", err)
					return
				}
				defer srv.Close()
				x := &c15Env{r: r, srv: srv}
				px := &c15Env{r: r, proc: true}
				// registry: every Name constant of the library must be routed to its own ecosystem
				for _, e := range eco.All() {
					if e.Name() != e.DeclName() {
						r.Violate(core.Violation{Property: "C15", Scope: e.Name(), Kind: "name-mismatch", Inputs: []string{e.Name(), e.DeclName()}, Expected: "Ecosystem.Name() equals the package's Name constant", Got: e.DeclName()})
					}
				}
				// vers contains
				pool := []string{"vers:npm/>=1.0.0|<2.0.0", "vers:deb/<1.0~rc1", "vers:pypi/>=1.0", "vers:npm/*", "vers:nope/>=1", "npm/>=1.0.0", "vers:npm/>=1.0.0-RC.1|<2.0.0", "VERS:npm/>=1.0.0", "vers:NPM/>=1.0.0", "1.0.0-rc.1", "vers:npm/>=1.0.0+b|<2.0.0+c", "vers:golang/>=v1.0.0+incompatible", "vers:npm/%3E%3D1.0.0", "1.5.0+b", "vers:npm/>=1.0.0%7C<2.0.0", "1.0.0", "1.5.0", "1.0~beta", "2.0.0", "", " ", "-1", "--", "not a version", "vers:maven/[1.0,2.0]"}
				n := 0
				for _, args := range c15ArgVectors(pool, 3) {
					argv := append([]string{"vers", "contains"}, args...)
					r.Add("states", 1)
					ok, exact := false, ""
					if len(args) == 2 {
						got, err := vers.Contains(args[0], args[1])
						if err == nil {
							ok, exact = true, fmt.Sprintf("%t\n", got)
						}
					}
					c15Check(x, "vers", argv, ok, exact, nil)
					n++
					if n%211 == 0 {
						c15Check(px, "vers", argv, ok, exact, nil)
					}
				}
				// long vers ranges and long probes (many intervals, long bounds, blank padding)
				for _, k := range []int{4, 9, 17, 40, 130, 520} {
					var ivs []string
					for i := 0; i < k; i++ {
						ivs = append(ivs, fmt.Sprintf(">=%d.0.0|<%d.5.0", i+1, i+1))
					}
					longRanges := []string{
						"vers:npm/" + strings.Join(ivs, "|"),
						"vers:npm/>=1.0.0-" + strings.Repeat("a", 8*k) + "|<2.0.0",
						"vers:pypi/>=" + strings.Repeat("1.", 4*k) + "1",
						"vers:npm/>=1.0.0" + strings.Repeat(" ", 8*k) + "|<2.0.0",
						"vers:npm/" + strings.Repeat("!=3.0.0|", 0) + "!=" + strings.Repeat("0", 8*k) + "3.0.0",
					}
					probes := []string{"1.2.0", "1.7.0", fmt.Sprintf("%d.2.0", k), "1.0.0-" + strings.Repeat("a", 8*k+1), "1.2.0" + strings.Repeat(" ", 8*k), strings.Repeat("1.", 4*k) + "2"}
					for _, lr := range longRanges {
						for _, pb := range probes {
							got, err := vers.Contains(lr, pb)
							ok, exact := false, ""
							if err == nil {
								ok, exact = true, fmt.Sprintf("%t\n", got)
							}
							r.Add("states", 1)
							r.Add("long_argument_vectors", 1)
							c15Check(x, "vers", []string{"vers", "contains", lr, pb}, ok, exact, nil)
						}
					}
				}
				// a leading flag-like or empty argument in front of a valid invocation is not an ecosystem
				for _, pre := range []string{"--", "-", "--version", "-version", "-version=false", "-h", "--help", "-v", "", " ", "--ecosystem=npm"} {
					for _, tail := range [][]string{{"npm", "compare", "1.0.0", "2.0.0"}, {"vers", "contains", "vers:npm/*", "1.0.0"}, {"npm", "sort", "2.0.0", "1.0.0"}, {}} {
						argv := append([]string{pre}, tail...)
						r.Add("states", 1)
						c15Check(x, "names", argv, false, "", nil)
						c15Check(px, "names", argv, false, "", nil)
					}
				}
				for _, argv := range [][]string{{"vers"}, {"vers", "compare", "1", "2"}, {"vers", "sort", "1"}, {"vers", "Contains", "vers:npm/*", "1.0.0"}, {"vers", ""}} {
					c15Check(x, "vers", argv, false, "", nil)
				}
				// near-miss names and no arguments
				for _, nm := range []string{"NPM", "Npm", "deb", "generic", "gomod", "go", "", "npm ", " npm", "rubygems", "pip", "crates", "Vers", "VERS", "npm\n", "-h", "--help", "help"} {
					for _, rest := range [][]string{{}, {"compare", "1.0.0", "2.0.0"}, {"contains", "vers:npm/*", "1.0.0"}} {
						argv := append([]string{nm}, rest...)
						r.Add("states", 1)
						c15Check(x, "near-miss", argv, false, "", nil)
					}
				}
				c15Check(x, "near-miss", []string{}, false, "", nil)
				c15Check(px, "near-miss", []string{}, false, "", nil)
				c15Check(px, "near-miss", []string{"NPM", "compare", "1.0.0", "2.0.0"}, false, "", nil)
			}})
			return us
		},
		Replay: func(v *core.Violation) (bool, string) {
			srv, err := cli.Start()
			if err != nil {
				return false, err.Error()
			}
			defer srv.Close()
			res := core.NewResult()
			x := &c15Env{r: res, srv: srv, proc: strings.HasSuffix(v.Kind, "-process")}
			argv := v.Inputs
			if v.Kind == "name-mismatch" {
				e := eco.ByName(v.Scope)
				return e.Name() != e.DeclName(), e.DeclName()
			}
			ok, exact := false, ""
			var sorted []eco.Ver
			if len(argv) >= 2 && argv[0] == "vers" && argv[1] == "contains" {
				if len(argv) == 4 {
					got, err := vers.Contains(argv[2], argv[3])
					if err == nil {
						ok, exact = true, fmt.Sprintf("%t\n", got)
					}
				}
			} else if len(argv) >= 2 {
				if e := eco.ByName(argv[0]); e != nil {
					ok, exact, sorted = c15Expect(e, argv[1], argv[2:])
				}
			}
			c15Check(x, v.Scope, argv, ok, exact, sorted)
			if res.NewCount > 0 {
				return true, res.New[0].Got
			}
			return false, "matches the library"
		},
		Finalize: func(r *core.Result, tier string) map[string]any {
			return map[string]any{
				"states":                        r.Counters["states"],
				"transitions":                   r.Counters["evaluations"],
				"traces_validated_against_impl": r.Counters["evaluations"],
				"evaluations":                   r.Counters["evaluations"],
				"distinct_nontrivial":           r.Counters["nontrivial"],
			}
		},
		Rule:        "for each of the 20 Name constants (read from the library packages, not from the CLI's table): commands compare/contains/sort x every argument vector of length 0..3 (sort: thorough 0..4, plus length 5 over 5 strings) over a 14-string pool (3 valid versions, a Compare-equal variant, 2 valid ranges, an invalid string, empty, blank, -1, --, a quoted version, a string with an inner space, one with a newline); 7 unknown command spellings; long arguments (six long spellings of a valid version and three of a range at lengths 31, 65, 129, 257, 1025, 4097, and sort with up to 1024 arguments; counter long_argument_vectors), and for `vers contains` five long range shapes (up to 520 intervals, long bounds, blank padding) x six probes at six sizes; 'vers contains' over all vectors of length 0..3 over a 16-string pool; 18 near-miss names. Every vector is run through the repository's run() (overlay-built in-process server) and a deterministic 1-in-k stride also as real processes of the unmodified binary. Expected stdout/exit code are computed by calling the library directly. distinct_nontrivial = vectors whose expectation is a success. Routing fingerprint: every ordered pair over 36 characteristic spellings drawn from all ecosystems through `compare` under every name; the library itself is used to confirm that every two ecosystems differ on at least one such pair (fingerprint_distinguished_pairs).",
		Assumptions: []string{"sort output is checked as multiset + library order (the order among Compare-equal versions is not fixed by the property)"},
	})
}
