package props

import (
	"fmt"
	"slices"
	"sort"
	"strconv"
	"strings"

	"verif/engine/cli"
	"verif/engine/core"
	"verif/engine/eco"
	"verif/engine/findings"
	"verif/engine/gen"
	"verif/engine/order"
	"verif/engine/univ"
)

// parseQuotedList parses the CLI's sort output: %q-quoted strings joined by single spaces.
func parseQuotedList(out string) ([]string, bool) {
	if !strings.HasSuffix(out, "\n") || strings.Count(out, "\n") != 1 {
		return nil, false
	}
	s := strings.TrimSuffix(out, "\n")
	var res []string
	for len(s) > 0 {
		if s[0] != '"' {
			return nil, false
		}
		q, err := strconv.QuotedPrefix(s)
		if err != nil {
			return nil, false
		}
		u, err := strconv.Unquote(q)
		if err != nil {
			return nil, false
		}
		res = append(res, u)
		s = s[len(q):]
		if len(s) > 0 {
			if s[0] != ' ' {
				return nil, false
			}
			s = s[1:]
		}
	}
	return res, true
}

// c07Universes derives the small universes W from U_E: spread, equal-variant and neighbour sets.
func c07Universes(name string, lvl int, dirty func(string) bool) [][]string {
	e := eco.ByName(name)
	u := univ.Versions(e, 0)
	var idx []int
	for i, s := range u.Strs {
		if s == strings.TrimSpace(s) && !dirty(s) && !strings.ContainsAny(s, " \t\n") {
			idx = append(idx, i)
		}
	}
	// the whole clean universe first: if Compare is not a total preorder anywhere on it, the
	// offending triple becomes the sort input (the stride sample below may not contain it)
	{
		fv := make([]eco.Ver, len(idx))
		for k, i := range idx {
			fv[k] = u.Vers[i]
		}
		fm := order.Build(fv)
		fall := make([]int, len(fv))
		for i := range fall {
			fall[i] = i
		}
		if _, off, wit := fm.Rank(fall, 3); off > 0 && len(wit) > 0 {
			w := []string{u.Strs[idx[wit[0].A]], u.Strs[idx[wit[0].B]], u.Strs[idx[wit[0].C]]}
			for _, k := range []int{0, len(idx) / 2, len(idx) - 1} {
				dup := false
				for _, x := range w {
					if x == u.Strs[idx[k]] {
						dup = true
					}
				}
				if !dup {
					w = append(w, u.Strs[idx[k]])
				}
			}
			return [][]string{w}
		}
	}
	idx = stride(idx, 400)
	vs := make([]eco.Ver, len(idx))
	strs := make([]string, len(idx))
	for k, i := range idx {
		vs[k], strs[k] = u.Vers[i], u.Strs[i]
	}
	m := order.Build(vs)
	all := make([]int, len(vs))
	for i := range all {
		all[i] = i
	}
	rank, off, wit := m.Rank(all, 3)
	if off > 0 {
		// Compare is not a total preorder on the sample: sort the offending triple (plus three
		// spread members) in every order - the inconsistency then shows in C07's own terms
		if len(wit) == 0 {
			return nil
		}
		w := []string{strs[wit[0].A], strs[wit[0].B], strs[wit[0].C]}
		for _, k := range []int{0, len(strs) / 2, len(strs) - 1} {
			dup := false
			for _, x := range w {
				if x == strs[k] {
					dup = true
				}
			}
			if !dup {
				w = append(w, strs[k])
			}
		}
		return [][]string{w}
	}
	cls, nc := order.Classes(rank)
	byClass := make([][]int, nc)
	for i, c := range cls {
		byClass[c] = append(byClass[c], i)
	}
	pick := func(cs []int) []string {
		var w []string
		for _, c := range cs {
			w = append(w, strs[byClass[c][0]])
		}
		return w
	}
	var ws [][]string
	// W1: six classes spread evenly
	var spread []int
	for k := 0; k < 6 && nc >= 6; k++ {
		spread = append(spread, k*(nc-1)/5)
	}
	if len(spread) == 6 {
		ws = append(ws, pick(spread))
	}
	// W2: Compare-equal textual variants: two classes with >= 2 spellings, plus two singles
	var w2 []string
	for c := 0; c < nc && len(w2) < 4; c++ {
		if len(byClass[c]) >= 2 {
			w2 = append(w2, strs[byClass[c][0]], strs[byClass[c][len(byClass[c])-1]])
		}
	}
	if len(w2) >= 2 {
		for c := nc - 1; c >= 0 && len(w2) < 6; c-- {
			if len(byClass[c]) == 1 {
				w2 = append(w2, strs[byClass[c][0]])
			}
		}
		ws = append(ws, w2)
	}
	// W3: six neighbouring classes around the middle (closest in the order)
	if nc >= 6 {
		var mid []int
		for k := 0; k < 6; k++ {
			mid = append(mid, nc/2-3+k)
		}
		ws = append(ws, pick(mid))
	}
	// W4: distinct spellings - one member per "shape signature" (prefix class, punctuation set,
	// upper case, long digit run), up to six
	sig := func(x string) string {
		k := ""
		switch {
		case x == "":
		case x[0] >= '0' && x[0] <= '9':
			k = "d"
		default:
			k = string(x[0])
		}
		seen := map[rune]bool{}
		run, long, upper := 0, false, false
		for _, c := range x {
			switch {
			case c >= '0' && c <= '9':
				run++
				if run >= 10 {
					long = true
				}
				continue
			case c >= 'A' && c <= 'Z':
				upper = true
			case c >= 'a' && c <= 'z':
			default:
				seen[c] = true
			}
			run = 0
		}
		var ps []string
		for c := range seen {
			ps = append(ps, string(c))
		}
		sort.Strings(ps)
		return fmt.Sprintf("%s|%s|%v|%v", k, strings.Join(ps, ""), upper, long)
	}
	// (W4 and W5 look at the whole clean universe, not only the stride sample)
	var fullStrs []string
	for i, x := range u.Strs {
		if x == strings.TrimSpace(x) && !dirty(x) && !strings.ContainsAny(x, " \t\n") && len(x) < 60 {
			_ = i
			fullStrs = append(fullStrs, x)
		}
	}
	{
		bySig := map[string]string{}
		count := map[string]int{}
		var sigs []string
		for _, x := range fullStrs {
			g := sig(x)
			count[g]++
			if _, ok := bySig[g]; !ok {
				bySig[g] = x
				sigs = append(sigs, g)
			}
		}
		// rarest shapes first (ties: by signature text)
		sort.Slice(sigs, func(a, b int) bool {
			if count[sigs[a]] != count[sigs[b]] {
				return count[sigs[a]] < count[sigs[b]]
			}
			return sigs[a] < sigs[b]
		})
		var w4 []string
		for k := 0; k < len(sigs) && len(w4) < 6; k++ {
			w4 = append(w4, bySig[sigs[k]])
		}
		if len(w4) >= 4 {
			ws = append(ws, w4)
		}
	}
	// W5: six members of the most populated numeric core (same release, different markers)
	{
		coreOf := func(x string) string {
			x = strings.TrimLeft(x, "v=")
			for i, c := range x {
				if !(c >= '0' && c <= '9') && c != '.' {
					return strings.TrimRight(x[:i], ".")
				}
			}
			return x
		}
		buckets := map[string][]int{}
		for i, x := range fullStrs {
			buckets[coreOf(x)] = append(buckets[coreOf(x)], i)
		}
		best := ""
		for k, b := range buckets {
			if len(b) > len(buckets[best]) || (len(b) == len(buckets[best]) && k < best) {
				best = k
			}
		}
		if b := buckets[best]; len(b) >= 4 {
			var w5 []string
			for _, i := range stride(b, 6) {
				w5 = append(w5, fullStrs[i])
			}
			ws = append(ws, w5)
		}
	}
	if lvl > 0 && nc >= 12 {
		var lo, hi []int
		for k := 0; k < 6; k++ {
			lo = append(lo, k)
			hi = append(hi, nc-6+k)
		}
		ws = append(ws, pick(lo), pick(hi))
		// a universe with an exact duplicate string
		d := pick(spread)
		d[1] = d[0]
		ws = append(ws, d)
	}
	return ws
}

type c07Checker struct {
	r     *core.Result
	name  string
	e     eco.Eco
	srv   *cli.Server
	parse map[string]eco.Ver
	// class sequence per multiset
	seqByMultiset map[string]string
	firstList     map[string][]string
}

func (c *c07Checker) ver(s string) eco.Ver {
	if v, ok := c.parse[s]; ok {
		return v
	}
	v, err := eco.SafeParse(c.e, s)
	if err != nil {
		v = nil
	}
	c.parse[s] = v
	return v
}

func multisetKey(l []string) string {
	s := append([]string{}, l...)
	sort.Strings(s)
	return strings.Join(s, "\x00")
}

// classSeq renders the sequence of equivalence classes of an output list: consecutive
// Compare-equal elements form one class, rendered as the sorted set of its strings.
func (c *c07Checker) classSeq(out []string) string {
	var parts []string
	var cur []string
	flush := func() {
		if len(cur) > 0 {
			sort.Strings(cur)
			parts = append(parts, strings.Join(cur, ","))
		}
		cur = nil
	}
	for i, s := range out {
		if i > 0 {
			cmp, _ := eco.SafeCompare(c.ver(out[i-1]), c.ver(s))
			if cmp != 0 {
				flush()
			}
		}
		cur = append(cur, s)
	}
	flush()
	return strings.Join(parts, " < ")
}

func (c *c07Checker) checkOutput(via string, in, out []string) {
	r := c.r
	viol := func(kind, exp, got string) {
		r.Violate(core.Violation{Property: "C07", Scope: c.name, Kind: kind, Inputs: append([]string{via}, in...), Expected: exp, Got: got})
	}
	if multisetKey(in) != multisetKey(out) {
		viol("multiset", "output is a permutation of the input strings", fmt.Sprintf("%q", out))
		return
	}
	for i := 1; i < len(out); i++ {
		cmp, p := eco.SafeCompare(c.ver(out[i-1]), c.ver(out[i]))
		if p != nil || cmp > 0 {
			viol("order", "adjacent outputs in non-decreasing order", fmt.Sprintf("%q: Compare(%q,%q)=%d", out, out[i-1], out[i], cmp))
			return
		}
	}
	seq := c.classSeq(out)
	key := via + "\x01" + multisetKey(in)
	if prev, ok := c.seqByMultiset[key]; ok {
		if prev != seq {
			viol("class-sequence", "same class sequence for every ordering of the same inputs: "+prev+" (from input order "+fmt.Sprintf("%q", c.firstList[key])+")", seq)
		}
	} else {
		c.seqByMultiset[key] = seq
		c.firstList[key] = append([]string{}, in...)
	}
}

func (c *c07Checker) sortList(l []string) {
	r := c.r
	// CLI
	resp, err := c.srv.Call(append([]string{c.name, "sort"}, l...))
	r.Add("evaluations", 1)
	if err != nil {
		r.Internalf("cli server: %v", err)
		return
	}
	if resp.Panic != "" || resp.Code != 0 {
		r.Violate(core.Violation{Property: "C07", Scope: c.name, Kind: "cli-failure", Inputs: append([]string{"cli"}, l...), Expected: "exit 0 and a sorted list", Got: fmt.Sprintf("code=%d panic=%q out=%q", resp.Code, resp.Panic, resp.Out)})
	} else if out, ok := parseQuotedList(resp.Out); !ok {
		r.Violate(core.Violation{Property: "C07", Scope: c.name, Kind: "cli-format", Inputs: append([]string{"cli"}, l...), Expected: "one line of quoted strings", Got: resp.Out})
	} else {
		c.checkOutput("cli", l, out)
	}
	// README idiom
	vs := make([]eco.Ver, len(l))
	for i, s := range l {
		v, err := eco.SafeParse(c.e, s) // fresh objects, as a user would have
		if err != nil {
			return
		}
		vs[i] = v
	}
	func() {
		defer func() {
			if x := recover(); x != nil {
				r.Violate(core.Violation{Property: "C07", Scope: c.name, Kind: "idiom-panic", Inputs: append([]string{"idiom"}, l...), Expected: "no panic", Got: fmt.Sprint(x)})
			}
		}()
		slices.SortFunc(vs, func(a, b eco.Ver) int { return a.Compare(b) })
	}()
	out := make([]string, len(vs))
	for i, v := range vs {
		out[i] = v.String()
	}
	r.Add("evaluations", 1)
	c.checkOutput("idiom", l, out)
}

func c07Unit(name string, tier string) core.Unit {
	lvl := level(tier)
	return core.Unit{Name: "C07/" + name, Weight: 10, Run: func(r *core.Result) {
		srv, err := cli.Start()
		if err != nil {
			r.Internalf("cannot start CLI server: %v", err)
			return
		}
		defer srv.Close()
		dirty := func(s string) bool {
			return c01Dirty(name, s) || findings.ElementInClass("C01", name, "transitivity", s)
		}
		c := &c07Checker{r: r, name: name, e: eco.ByName(name), srv: srv, parse: map[string]eco.Ver{}, seqByMultiset: map[string]string{}, firstList: map[string][]string{}}
		ws := c07Universes(name, lvl, dirty)
		if len(ws) < 1 {
			r.Internalf("C07 %s: could not derive universes (got %d)", name, len(ws))
			return
		}
		maxLen := 5
		if lvl > 0 {
			maxLen = 6
		}
		for wi, w := range ws {
			r.AddScope(name, "universes", 1)
			for L := 1; L <= maxLen; L++ {
				if wi >= 3 && L == maxLen && len(w) > 5 {
					continue
				}
				idx := make([]int, L)
				for {
					l := make([]string, L)
					for i, k := range idx {
						l[i] = w[k]
					}
					r.Add("states", 1)
					c.sortList(l)
					// next tuple
					p := L - 1
					for p >= 0 {
						idx[p]++
						if idx[p] < len(w) {
							break
						}
						idx[p] = 0
						p--
					}
					if p < 0 {
						break
					}
				}
			}
			if wi == 0 || (wi >= 3 && name == "golang") {
				r.Sample(fmt.Sprintf("list-w%d", wi), map[string]any{"eco": name, "universe": w})
			}
		}
		// distinct class sequences with >1 class = non-trivial multisets
		for _, s := range c.seqByMultiset {
			if strings.Contains(s, " < ") {
				r.Add("nontrivial", 1)
			}
		}
		// long deterministic families over a 16-element universe
		big := c07Universes16(name, dirty)
		if len(big) >= 8 {
			for _, n := range []int{13, 33, 64} {
				base := make([]string, n)
				for i := range base {
					base[i] = big[i*len(big)/n%len(big)]
				}
				asc := append([]string{}, base...)
				sort.SliceStable(asc, func(i, j int) bool { return c.ver(asc[i]).Compare(c.ver(asc[j])) < 0 })
				desc := append([]string{}, asc...)
				slices.Reverse(desc)
				fams := [][]string{asc, desc}
				for k := 1; k < n; k++ {
					fams = append(fams, append(append([]string{}, asc[k:]...), asc[:k]...))
				}
				pipe := make([]string, 0, n)
				for i := 0; i < n; i += 2 {
					pipe = append(pipe, asc[i])
				}
				for i := n - 1 - (n % 2); i >= 1; i -= 2 {
					pipe = append(pipe, asc[i])
				}
				fams = append(fams, pipe)
				eq := make([]string, n)
				two := make([]string, n)
				for i := range eq {
					eq[i] = big[0]
					two[i] = big[(i/4)%2]
				}
				fams = append(fams, eq, two)
				for _, f := range fams {
					r.Add("states", 1)
					c.sortList(f)
				}
			}
		}
		// the whole clean universe as one list, from six deterministic input orders: any
		// inconsistency of Compare on it shows as an adjacency violation or as differing class
		// sequences between the orders
		{
			u := univ.Versions(c.e, 0)
			var whole []string
			for _, s := range u.Strs {
				if s == strings.TrimSpace(s) && !dirty(s) && !strings.ContainsAny(s, " \t\n\r") && len(s) < 40 {
					whole = append(whole, s)
				}
			}
			whole = func() []string {
				idx := make([]int, len(whole))
				for i := range idx {
					idx[i] = i
				}
				var out []string
				for _, i := range stride(idx, 1500) {
					out = append(out, whole[i])
				}
				return out
			}()
			n := len(whole)
			if n >= 50 {
				orders := [][]string{append([]string{}, whole...)}
				rev := append([]string{}, whole...)
				slices.Reverse(rev)
				orders = append(orders, rev)
				for _, k := range []int{n / 3, n / 2} {
					orders = append(orders, append(append([]string{}, whole[k:]...), whole[:k]...))
				}
				inter := make([]string, 0, n)
				for i := 0; i < n; i += 2 {
					inter = append(inter, whole[i])
				}
				for i := 1; i < n; i += 2 {
					inter = append(inter, whole[i])
				}
				orders = append(orders, inter)
				bylen := append([]string{}, whole...)
				sort.SliceStable(bylen, func(i, j int) bool { return len(bylen[i]) > len(bylen[j]) })
				orders = append(orders, bylen)
				for _, o := range orders {
					r.Add("states", 1)
					c.sortList(o)
				}
				r.AddScope(name, "whole_universe_list_length", int64(n))
			}
		}
		// foreign spellings: every ordered pair over the characteristic spellings of ALL ecosystems
		// (C15's routing fingerprint) through `sort`: a pair of valid versions must come back
		// sorted by THIS ecosystem's order, a pair with an invalid member must be refused
		for _, a := range c15Fingerprint {
			for _, b := range c15Fingerprint {
				va, vb := c.ver(a), c.ver(b)
				r.Add("states", 1)
				if va != nil && vb != nil {
					c.sortList([]string{a, b})
					continue
				}
				resp, err := srv.Call([]string{name, "sort", a, b})
				r.Add("evaluations", 1)
				if err != nil {
					r.Internalf("cli server: %v", err)
					return
				}
				if _, looksSorted := parseQuotedList(resp.Out); resp.Panic != "" || resp.Code != 1 || looksSorted {
					r.Violate(core.Violation{Property: "C07", Scope: name, Kind: "invalid-input", Inputs: []string{"cli", a, b},
						Expected: "exit 1, a diagnostic naming the invalid argument, no result list", Got: fmt.Sprintf("code=%d panic=%q out=%q", resp.Code, resp.Panic, resp.Out)})
				}
			}
		}
		// invalid inputs: every position of every list of length <= 3 over W1 replaced
		bad := []string{"", "not a version !", "%%%"}
		w := ws[0][:3]
		for L := 1; L <= 3; L++ {
			for _, l := range tuples(w, L) {
				for pos := 0; pos < L; pos++ {
					for _, b := range bad {
						if _, err := eco.SafeParse(c.e, b); err == nil {
							continue
						}
						ll := append([]string{}, l...)
						ll[pos] = b
						resp, err := srv.Call(append([]string{name, "sort"}, ll...))
						r.Add("evaluations", 1)
						r.Add("states", 1)
						if err != nil {
							r.Internalf("cli server: %v", err)
							return
						}
						_, looksSorted := parseQuotedList(resp.Out)
						if resp.Panic != "" || resp.Code != 1 || looksSorted || !namesArgument(resp.Out, b) {
							r.Violate(core.Violation{Property: "C07", Scope: name, Kind: "invalid-input", Inputs: append([]string{"cli"}, ll...),
								Expected: "exit 1, a diagnostic naming the invalid argument, no result list", Got: fmt.Sprintf("code=%d panic=%q out=%q", resp.Code, resp.Panic, resp.Out)})
						}
					}
				}
			}
		}
	}}
}

// namesArgument: the diagnostic contains the invalid argument, raw or as Go-quoted text (any
// quoting style names it).
func namesArgument(out, arg string) bool {
	q := strconv.Quote(arg)
	return strings.Contains(out, arg) || strings.Contains(out, q[1:len(q)-1])
}

// c07Universes16 returns 16 clean versions of distinct classes.
func c07Universes16(name string, dirty func(string) bool) []string {
	e := eco.ByName(name)
	u := univ.Versions(e, 0)
	var idx []int
	for i, s := range u.Strs {
		if s == strings.TrimSpace(s) && !dirty(s) {
			idx = append(idx, i)
		}
	}
	idx = stride(idx, 120)
	var out []string
	var vs []eco.Ver
	for _, i := range idx {
		dup := false
		for _, v := range vs {
			if c, _ := eco.SafeCompare(v, u.Vers[i]); c == 0 {
				dup = true
				break
			}
		}
		if !dup {
			vs = append(vs, u.Vers[i])
			out = append(out, u.Strs[i])
		}
		if len(out) == 16 {
			break
		}
	}
	return out
}

// c01Dirty: element-level exclusions that are part of C01's statement (alpm pkgrel mixing is
// avoided by using only versions without '-').
func c01Dirty(name, s string) bool {
	if name == "alpm" {
		return alpmGroup(s) != 0
	}
	return false
}

func init() {
	core.Register(&core.Prop{
		ID:    "C07",
		Title: "Sorting returns the same versions in non-decreasing order",
		Units: func(tier string) []core.Unit {
			var us []core.Unit
			for _, n := range gen.EcoNames {
				us = append(us, c07Unit(n, tier))
			}
			return us
		},
		Replay: func(v *core.Violation) (bool, string) {
			// replay re-sorts every permutation of the recorded list through the recorded path
			srv, err := cli.Start()
			if err != nil {
				return false, "cannot start CLI server: " + err.Error()
			}
			defer srv.Close()
			res := core.NewResult()
			c := &c07Checker{r: res, name: v.Scope, e: eco.ByName(v.Scope), srv: srv, parse: map[string]eco.Ver{}, seqByMultiset: map[string]string{}, firstList: map[string][]string{}}
			l := v.Inputs[1:]
			if v.Kind == "invalid-input" {
				resp, _ := srv.Call(append([]string{v.Scope, "sort"}, l...))
				_, looksSorted := parseQuotedList(resp.Out)
				return resp.Panic != "" || resp.Code != 1 || looksSorted, fmt.Sprintf("code=%d out=%q", resp.Code, resp.Out)
			}
			if len(l) <= 6 {
				for _, p := range permutations(len(l)) {
					ll := make([]string, len(l))
					for i, j := range p {
						ll[i] = l[j]
					}
					c.sortList(ll)
				}
			} else {
				c.sortList(l)
			}
			if res.NewCount > 0 {
				return true, res.New[0].Kind + ": " + res.New[0].Got
			}
			return false, "all permutations sort consistently"
		},
		Finalize: func(r *core.Result, tier string) map[string]any {
			return map[string]any{
				"states":                        r.Counters["states"],
				"transitions":                   r.Counters["evaluations"],
				"traces_validated_against_impl": r.Counters["evaluations"],
				"evaluations":                   r.Counters["evaluations"],
				"distinct_nontrivial":           r.Counters["nontrivial"],
			}
		},
		Rule:        "per ecosystem 5 (quick) / 8 (thorough) universes W of up to 6 versions derived from C01's universe (six classes spread over the order; Compare-equal textual variants plus singles; six neighbouring classes; one member per distinct spelling shape - prefixes, punctuation, upper case, long digit runs; six members of the most populated numeric core, i.e. pre/post/dev spellings of one release; thorough: lowest six, highest six, one with an exact duplicate): EVERY list of length 1..5 (quick) / 1..6 (thorough) over W - i.e. every permutation of every multiset - is sorted through the real CLI `sort` (overlay-built server around run()) and through the README idiom slices.SortFunc; plus deterministic families of length 13, 33, 64 (sorted, reversed, all rotations, organ-pipe, all-equal, two-value blocks); plus the whole clean universe (up to 1 500 versions) as one list from six deterministic input orders; plus every list of length <= 3 with each position replaced by an invalid string; plus every ordered pair over 36 characteristic spellings of all ecosystems (sorted by this ecosystem's order if both are valid here, refused otherwise). distinct_nontrivial = distinct multisets whose sorted output has more than one class.",
		Assumptions: []string{"versions in known-intransitive classes (C01 known findings) and alpm versions with '-' are not used as sort inputs", "'all permutations' beyond length 6 is replaced by the deterministic families"},
	})
}
