package props

import (
	"verif/engine/gen"
	"verif/engine/ref"
)

func c12Candidates(lvl int) []string {
	n := gen.Lit("0", "1", "2", "10")
	core := dotted(n, 1, 2)
	if lvl > 0 {
		core = gen.Alt(dotted(n, 1, 3), dotted(gen.Lit("0", "1"), 4, 4))
	} else {
		core = gen.Alt(core, gen.Lit("1.0.0", "1.0.1", "1.1.0", "1.0.0.0", "1.0.0.1", "2.0.0"))
	}
	q := gen.Cases("alpha", "beta", "milestone", "rc", "cr", "snapshot", "ga", "final", "release", "sp", "foo", "zeta", "x")
	num := gen.Lit("1", "2", "10", "0")
	small := gen.Lit("1", "1.0", "1.1", "2.0", "1.0.0")
	if lvl > 0 {
		small = gen.Alt(small, gen.Lit("0", "1.0.1", "2", "1.2.3.4", "1.0.0.0", "10.0", "0.0.1", "2.1"))
		num = gen.Lit("1", "2", "10", "0", "01", "2147483648")
	}
	// unknown words that embed a known qualifier as prefix or suffix (suffix/prefix tests on raw text)
	embed := gen.Lit("prerelease", "semifinal", "mega", "omega", "preparation", "pre", "semi", "finalx", "gax", "rcx", "xrc", "alphax", "xalpha", "betas", "snapshots", "spx", "xsp", "crx", "milestones", "releases", "am", "ba", "ma", "PreRelease", "SEMIFINAL")
	m := gen.Magnitudes
	return gen.Alt(
		gen.Seq(gen.Lit("1", "1.0", "1.1"), gen.Lit(".", "-"), embed, gen.Opt(gen.Lit("1", "-1", ".2"))),
		gen.Seq(gen.Lit("1.", "1-", "1-alpha-", "1-rc", "1.0.", "1-sp-", "1-foo-"), m),
		gen.Seq(m, gen.Lit("", ".1", "-1", "-rc")),
		gen.SlotFamily("maven"),
		gen.Seq(gen.Lit("1.", "1-", "1-rc-"), gen.Lit("100000000000000000000", "99999999999999999999", "18446744073709551616", "9223372036854775808")),
		gen.Seq(gen.Lit("1.", "1-", "1-alpha-", "1-rc", "1.0."), gen.Alt(gen.LeadingZeros, gen.Lit("7", "8", "9", "10", "11"))),
		gen.Lit("1-0.1", "1-0.2", "1-0", "1-0.0.1", "2.0-ga.1", "2.0-ga.2", "2.0-final.1", "2.0-release.0.1"),
		core,
		gen.Seq(small, gen.Lit(".", "-"), q),
		gen.Seq(small, gen.Lit(".", "-"), q, gen.Lit("", ".", "-"), num),
		gen.Seq(small, gen.Lit("-", "."), gen.Lit("a", "b", "m", "A", "B", "M"), num),
		gen.Seq(core, gen.Lit("-"), gen.Lit("1", "2", "10", "0")),
	)
}

func dotted(n gen.G, min, max int) gen.G { return gen.Join(n, gen.Lit("."), min, max) }

func init() {
	spec := &refSpec{Prop: "C12", Eco: "maven", Blocks: 16,
		Candidates: c12Candidates,
		Valid:      ref.MavenConventional,
		Cmp:        ref.MavenCompare,
	}
	registerRef("C12", "Maven versions order as Maven's ComparableVersion does", []*refSpec{spec},
		"every conventionally shaped Maven version from the shape grammar N(.N){0,3} [(.|-) qualifier [(|.|-) N] | -N] with every known qualifier in three letter cases, the aliases a/b/m glued to a digit, unknown words, numbers incl. 0 and multi-digit; all ordered pairs compared with the real Compare against a Go port of ComparableVersion (Maven 3.8). distinct_nontrivial = pairs the reference orders strictly.",
		[]string{"the Go port is the oracle; it is replayed against Maven's own maven-artifact jar by conformance/maven.sh", "exotic chains (several qualifier groups, bare single-letter aliases) are outside the domain, as stated"},
		[]string{"engine/ref/maven.go (port of ComparableVersion), conformance-checked against /usr/share/maven/lib/maven-artifact-3.x.jar"},
		"conformance/maven.sh")
}

// C12Candidates0 exposes the quick candidate set for the conformance dump.
func C12Candidates0() []string { return c12Candidates(0) }
