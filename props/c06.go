package props

import (
	"fmt"
	"strings"

	"github.com/alowayed/go-univers/pkg/spec/vers"

	"verif/engine/cli"
	"verif/engine/core"
	"verif/engine/eco"
	"verif/engine/gen"
	"verif/engine/steps"
)

var c06Alpha = gen.Chars("01ax.-~^*,|=<>![(]) _:+v")

func c06Alphabet(lvl int) []string { return c06Alpha }

// withBudget runs f under the statement budget; it reports a panic value (nil if none), whether
// the budget was exceeded, and the number of statements executed (0 when counting is unavailable).
func withBudget(n int, f func()) (pan any, exceeded bool, stepsUsed int64) {
	budget := int64(50)*int64(n)*int64(n) + 1_000_000
	if steps.Available {
		steps.Begin(budget)
	}
	func() {
		defer func() {
			if r := recover(); r != nil {
				if _, ok := r.(*steps.BudgetExceeded); ok {
					exceeded = true
					return
				}
				pan = r
			}
		}()
		f()
	}()
	if steps.Available {
		stepsUsed = steps.End()
	}
	return
}

type c06Ctx struct {
	r      *core.Result
	name   string
	e      eco.Eco
	probes []eco.Ver
}

func (c *c06Ctx) viol(kind string, inputs []string, exp, got string) {
	c.r.Violate(core.Violation{Property: "C06", Scope: c.name, Kind: kind, Inputs: inputs, Expected: exp, Got: got})
}

// checkVersion runs NewVersion on s and, on success, the follow-up operations.
func (c *c06Ctx) checkVersion(s string) (accepted bool) {
	var isNil bool
	var err error
	var v eco.Ver
	pan, exc, _ := withBudget(len(s), func() {
		isNil, err = c.e.ParseRawNil(s)
	})
	c.r.Add("evaluations", 1)
	switch {
	case exc:
		c.viol("version-budget", []string{s}, "terminates within 50*n^2+1e6 statements", "budget exceeded")
		return false
	case pan != nil:
		c.viol("version-panic", []string{s}, "no panic", fmt.Sprint(pan))
		return false
	case (err == nil) == isNil:
		c.viol("version-value-xor-error", []string{s}, "non-nil value with nil error, or nil value with non-nil error", fmt.Sprintf("nil value=%v err=%v", isNil, err))
		return false
	}
	if err != nil {
		return false
	}
	c.r.Add("accepted", 1)
	pan, exc, _ = withBudget(len(s), func() {
		v, _ = c.e.Parse(s)
		_ = v.String()
		_ = v.Compare(v)
		for _, p := range c.probes {
			_ = v.Compare(p)
			_ = p.Compare(v)
		}
	})
	if exc || pan != nil {
		c.viol("version-ops-panic", []string{s}, "Compare/String on a parsed version never panic and terminate", fmt.Sprintf("panic=%v budget-exceeded=%v", pan, exc))
	}
	return true
}

func (c *c06Ctx) checkRange(s string) (accepted bool) {
	var isNil bool
	var err error
	pan, exc, _ := withBudget(len(s), func() {
		isNil, err = c.e.ParseRangeRawNil(s)
	})
	c.r.Add("evaluations", 1)
	switch {
	case exc:
		c.viol("range-budget", []string{s}, "terminates within 50*n^2+1e6 statements", "budget exceeded")
		return false
	case pan != nil:
		c.viol("range-panic", []string{s}, "no panic", fmt.Sprint(pan))
		return false
	case (err == nil) == isNil:
		c.viol("range-value-xor-error", []string{s}, "non-nil value with nil error, or nil value with non-nil error", fmt.Sprintf("nil value=%v err=%v", isNil, err))
		return false
	}
	if err != nil {
		return false
	}
	c.r.Add("accepted", 1)
	pan, exc, _ = withBudget(len(s), func() {
		rg, _ := c.e.ParseRange(s)
		_ = rg.String()
		for _, p := range c.probes {
			_ = rg.Contains(p)
			_ = rg.Contains(p) // a second call on the same object
		}
	})
	if exc || pan != nil {
		c.viol("range-ops-panic", []string{s}, "Contains/String on a parsed range never panic and terminate", fmt.Sprintf("panic=%v budget-exceeded=%v", pan, exc))
	}
	return true
}

func c06Probes(e eco.Eco) []eco.Ver {
	var out []eco.Ver
	for _, s := range gen.RangeBounds[e.Name()] {
		var v eco.Ver
		var err error
		if pan, exc, _ := withBudget(len(s), func() { v, err = e.Parse(s) }); pan == nil && !exc && err == nil {
			out = append(out, v)
		}
		if len(out) == 3 {
			break
		}
	}
	return out
}

var c06Specials = []string{"\x00", "\x7f", "\x80", "\xff", "é", "٠", " ", "\t", "\n", "\r"}

// c06CaseSpecials: byte sequences whose length changes under strings.ToLower / ToUpper / ToValidUTF8
// (an index computed on the folded copy and used on the original, or the reverse, goes out of range).
var c06CaseSpecials = []string{"\xff", "\xff\xff", "\u023a", "\u023a\u023a", "\u0130", "\u212a", "\u1e9e", "\u00df", "\u0131", "\xc3", "\xe2\x82"}

func c06EcoUnit(name string, lvl int) core.Unit {
	return core.Unit{Name: "C06/" + name, Weight: 10, Run: func(r *core.Result) {
		e := eco.ByName(name)
		c := &c06Ctx{r: r, name: name, e: e, probes: c06Probes(e)}
		L := 3
		if lvl > 0 {
			L = 4
		}
		all := gen.AllStrings(c06Alphabet(lvl), L)
		r.Add("states", int64(len(all)))
		var shortAccepted []string
		for _, s := range all {
			va := c.checkVersion(s)
			ra := c.checkRange(s)
			if len(s) <= 3 {
				if va {
					shortAccepted = append(shortAccepted, "v:"+s)
				}
				if ra {
					shortAccepted = append(shortAccepted, "r:"+s)
				}
			}
		}
		// the universe's own strings (longer, grammar-shaped) and range grammar
		for _, s := range gen.Uniq(gen.Versions(name, 0)) {
			c.checkVersion(s)
			r.Add("states", 1)
		}
		for _, s := range gen.Uniq(gen.Ranges(name, 0)) {
			c.checkRange(s)
			r.Add("states", 1)
		}
		// every comparator and shorthand operator applied to every accepted universe version
		// (4-component, over-long digit runs, odd spellings), evaluated on the usual probes and on
		// the bound itself
		syn := gen.SyntaxTable[name]
		opSet := gen.Uniq(append(append([]string{}, syn.Ops...), "^", "~", "~>", "~> ", "~=", "=", "==", "", "!=", ">= "))
		saved := c.probes
		for _, vs := range gen.Uniq(gen.Versions(name, 0)) {
			var bv eco.Ver
			var berr error
			if pan, exc, _ := withBudget(len(vs), func() { bv, berr = e.Parse(vs) }); pan != nil || exc || berr != nil {
				continue
			}
			c.probes = append(append([]eco.Ver{}, saved...), bv)
			for _, op := range opSet {
				c.checkRange(op + vs + syn.SingleSuffix)
				r.Add("states", 1)
			}
			for _, rs := range []string{vs + ".*", vs + ".x", "[" + vs + "]", "[" + vs + ",)", "(," + vs + "]", vs + " - " + vs, "(" + vs + "," + vs + ")"} {
				c.checkRange(rs)
				r.Add("states", 1)
			}
		}
		c.probes = saved
		// arity family: every operator on dotted shapes of 1-6 components (incl. empty components,
		// wildcards and over-long arities that are not versions of the ecosystem)
		var shapes []string
		for k := 1; k <= 6; k++ {
			toks := []string{"1", "0", "10", "x", "*", ""}
			if k > 4 {
				toks = []string{"1", "0", ""}
			}
			for _, t := range tuples(toks, k) {
				shapes = append(shapes, strings.Join(t, "."))
			}
		}
		for _, sh := range gen.Uniq(shapes) {
			for _, op := range opSet {
				c.checkRange(op + sh + syn.SingleSuffix)
				r.Add("states", 1)
			}
			c.checkVersion(sh)
		}
		// byte-level specials substituted at / inserted before every position of every accepted short string
		for _, ks := range shortAccepted {
			kind, s := ks[:1], ks[2:]
			for i := 0; i <= len(s); i++ {
				for _, sp := range c06Specials {
					var muts []string
					muts = append(muts, s[:i]+sp+s[i:])
					if i < len(s) {
						muts = append(muts, s[:i]+sp+s[i+1:])
					}
					for _, m := range muts {
						r.Add("states", 1)
						if kind == "v" {
							c.checkVersion(m)
						} else {
							c.checkRange(m)
						}
					}
				}
			}
		}
		// length-changing specials around EVERY string of length <= 2 over the alphabet (accepted or
		// not: the parser may slice before it validates) and inside a stride sample of the universe
		{
			short := gen.AllStrings(c06Alphabet(lvl), 2)
			for _, t := range short {
				for _, sp := range c06CaseSpecials {
					muts := []string{sp + t, t + sp}
					if len(t) == 2 {
						muts = append(muts, t[:1]+sp+t[1:])
					}
					for _, m := range muts {
						r.Add("states", 1)
						r.Add("case_special_inputs", 1)
						c.checkVersion(m)
						c.checkRange(m)
					}
				}
			}
			uv := gen.Uniq(gen.Versions(name, 0))
			stride := len(uv)/120 + 1
			for k := 0; k < len(uv); k += stride {
				s := uv[k]
				for i := 0; i <= len(s); i++ {
					for _, sp := range c06CaseSpecials {
						for _, m := range []string{s[:i] + sp + s[i:], ">=" + s[:i] + sp + s[i:]} {
							r.Add("states", 1)
							r.Add("case_special_inputs", 1)
							c.checkVersion(m)
							c.checkRange(m)
						}
					}
				}
			}
		}
		r.Sample("string", map[string]any{"eco": name, "example": all[len(all)/2]})
	}}
}

func c06VersUnit(lvl int) core.Unit {
	return core.Unit{Name: "C06/vers", Weight: 12, Run: func(r *core.Result) {
		alpha := gen.Chars("01a.-|*=<>! ~:/v%")
		L := 3
		if lvl > 0 {
			L = 4
		}
		all := gen.AllStrings(alpha, L)
		schemes := append(append([]string{}, eco.Schemes...), "nope", "")
		check := func(rs, probe string) {
			var got bool
			var err error
			pan, exc, _ := withBudget(len(rs)+len(probe), func() { got, err = vers.Contains(rs, probe) })
			r.Add("evaluations", 1)
			if exc || pan != nil {
				r.Violate(core.Violation{Property: "C06", Scope: "vers", Kind: "vers-panic", Inputs: []string{rs, probe}, Expected: "no panic, terminates", Got: fmt.Sprintf("panic=%v budget-exceeded=%v", pan, exc)})
				return
			}
			if err != nil && got {
				r.Violate(core.Violation{Property: "C06", Scope: "vers", Kind: "vers-true-with-error", Inputs: []string{rs, probe}, Expected: "false whenever an error is returned", Got: fmt.Sprintf("true, %v", err)})
			}
			if err == nil {
				r.Add("accepted", 1)
			}
		}
		// probes that take the pre-release paths of the schemes (pypi's pre-release gate, ...)
		preProbes := []string{"2.0a1", "1.0.0-rc.1", "1.0~rc1", "1.0.dev1"}
		for _, sch := range schemes {
			valid := "vers:" + sch + "/>=1.0.0|<2.0.0"
			for _, s := range all {
				r.Add("states", 1)
				check("vers:"+sch+"/"+s, "1.0.0")
				check(valid, s)
			}
			// constraint texts from word tokens (local labels, marker letters, invalid operands)
			for _, s := range gen.AllStrings([]string{"1.0", "+", "a", "b", "data", "dev", "rc", ">=", "<", "|", "banana", "."}, L) {
				r.Add("states", 1)
				for _, pp := range preProbes {
					check("vers:"+sch+"/"+s, pp)
				}
			}
		}
		// several intervals where a later one carries a token that may parse as a version of the
		// scheme but cannot be written into a native range (or is simply invalid): the answer for
		// a probe inside an earlier interval must still be value xor error
		nasty := []string{"3%2", "3%", "%zz", "3%2e0", "3,0", "[3", "3]", "(3", "3)", "3;0", "3 0", "3&4", "3*", "3.x", "^3", "~3", "3-4", "3 - 4", "3@dev", "3||4", "3,", ",3", "3 ", "3\t0", "not-a-version", "3..0", "3.0-", "", "v", "3+", "+3", "3_0", "3:0", "3!0", "9999999999999999999999"}
		for _, sch := range eco.Schemes {
			for _, a := range nasty {
				for _, b := range append([]string{"4", "4.0.0"}, nasty[:6]...) {
					for _, form := range []string{">=1.0|<=2.0|>=%s|<=%s", ">=1.0.0|<=2.0.0|>=%s|<=%s", "<=2.0|>=%s|<=%s", ">=1.0|<=2.0|=%s|!=%s", ">=%s|<=%s|>=5.0|<=6.0", "!=%s|>=1.0|<=2.0|!=%s"} {
						rs := "vers:" + sch + "/" + fmt.Sprintf(form, a, b)
						r.Add("states", 1)
						for _, probe := range []string{"1.5", "1.5.0", "5.5", "3", "0.1", a} {
							check(rs, probe)
						}
					}
				}
			}
		}
		// every comparator sequence of length 1..5 (valid and invalid alternations alike) over
		// increasing versions: interval builders index bounds by position
		seqVers := []string{"1.0.0", "2.0.0", "3.0.0", "4.0.0", "5.0.0"}
		var seqs [][]string
		var rec func(cur []string)
		rec = func(cur []string) {
			if len(cur) > 0 {
				seqs = append(seqs, append([]string{}, cur...))
			}
			if len(cur) == 5 {
				return
			}
			for _, o := range []string{">=", "<", "=", "!=", ">", "<="} {
				rec(append(cur, o))
			}
		}
		rec(nil)
		for _, sch := range []string{"npm", "deb", "pypi", "maven", "gem", "generic"} {
			for _, ops := range seqs {
				parts := make([]string, len(ops))
				for i, o := range ops {
					parts[i] = o + seqVers[i]
				}
				rs := "vers:" + sch + "/" + strings.Join(parts, "|")
				r.Add("states", 1)
				check(rs, "2.5.0")
				if len(ops) <= 3 {
					check(rs, "0.5.0")
					check(rs, "9.0.0")
				}
			}
		}
		for _, s := range all {
			check(s, "1.0.0")
			check("vers:"+s, "1.0.0")
			check("vers:npm"+s, "1.0.0")
		}
		versBases := []string{"vers:npm/>=1.0.0|<2.0.0", "vers:deb/<1.0~rc1", "vers:npm/*", "vers:npm/", "vers:", "VERS:NPM/>=1.0.0"}
		for _, sch := range schemes {
			versBases = append(versBases, "vers:"+sch+"/>=1.0|<2.0")
		}
		for _, sp := range append(append([]string{}, c06Specials...), c06CaseSpecials...) {
			for _, base := range gen.Uniq(versBases) {
				for i := 0; i <= len(base); i++ {
					check(base[:i]+sp+base[i:], "1.0.0")
					check(base, "1.0"+sp+".0")
				}
			}
		}
		r.Sample("vers", map[string]any{"range": "vers:npm/" + all[len(all)/3], "probe": "1.0.0"})
	}}
}

// growth families: name -> generator of an input of about n characters.
var c06Families = []struct {
	name string
	gen  func(n int) string
}{
	{"digit-run", func(n int) string { return strings.Repeat("1", n) }},
	{"dot-digit", func(n int) string { return strings.Repeat("1.", n/2) + "1" }},
	{"dots", func(n int) string { return "1" + strings.Repeat(".", n) }},
	{"hyphens", func(n int) string { return "1" + strings.Repeat("-", n) }},
	{"hyphen-digit", func(n int) string { return "1" + strings.Repeat("-1", n/2) }},
	{"hyphen-zeros-then-one", func(n int) string { return "1" + strings.Repeat("-0", n/2) + "-1" }},
	{"dot-zeros-then-one", func(n int) string { return "1" + strings.Repeat(".0", n/2) + ".1" }},
	{"hyphen-zero-alpha", func(n int) string { return "1" + strings.Repeat("-0", n/2) + "-a" }},
	{"alpha-run", func(n int) string { return "1.0.0-" + strings.Repeat("a", n) }},
	{"dash-alpha", func(n int) string { return "1.0.0" + strings.Repeat("-alpha", n/6) }},
	{"dot-alpha", func(n int) string { return "1.0.0-a" + strings.Repeat(".a", n/2) }},
	{"digit-alpha-alternation", func(n int) string { return "1" + strings.Repeat("a1", n/2) }},
	{"underscore-p", func(n int) string { return "1.0" + strings.Repeat("_p1", n/3) }},
	{"tildes", func(n int) string { return "1.0" + strings.Repeat("~", n) }},
	{"or-bars", func(n int) string { return "1.0.0" + strings.Repeat("||", n/2) }},
	{"or-groups", func(n int) string { return strings.Repeat("1.0.0 || ", n/9) + "1.0.0" }},
	{"commas", func(n int) string { return ">=1.0.0" + strings.Repeat(",", n) }},
	{"comma-constraints", func(n int) string { return strings.Repeat(">=1.0.0,", n/8) + "<2.0.0" }},
	{"space-constraints", func(n int) string { return strings.Repeat(">=1.0.0 ", n/8) + "<2.0.0" }},
	{"operator-run", func(n int) string { return strings.Repeat(">=", n/2) + "1.0.0" }},
	{"open-brackets", func(n int) string { return strings.Repeat("[", n) + "1.0,2.0]" }},
	{"bracket-list", func(n int) string { return strings.Repeat("[1.0,2.0),", n/10) + "[3.0,4.0]" }},
	{"spaces", func(n int) string { return "1.0.0" + strings.Repeat(" ", n) + "2.0.0" }},
	{"carets", func(n int) string { return strings.Repeat("^", n) + "1.0.0" }},
	{"stars", func(n int) string { return "1" + strings.Repeat(".*", n/2) }},
}

func c06GrowthUnit(name string, lvl int) core.Unit {
	return core.Unit{Name: "C06/growth/" + name, Weight: 20, Run: func(r *core.Result) {
		sizes := []int{1000, 2000, 4000}
		if lvl > 0 {
			sizes = []int{1000, 2000, 4000, 8000, 16000}
		}
		if !steps.Available {
			r.Incompletef("statement counter not compiled in: growth families checked for panics only")
		}
		measure := func(kind, fam string, mk func(n int) string, call func(s string)) {
			var counts []int64
			for _, n := range sizes {
				s := mk(n)
				pan, exc, used := withBudget(len(s), func() { call(s) })
				r.Add("evaluations", 1)
				r.Add("states", 1)
				if exc {
					r.Violate(core.Violation{Property: "C06", Scope: name, Kind: kind + "-growth-budget", Inputs: []string{fam, fmt.Sprint(n)}, Expected: "at most 50*n^2+1e6 statements", Got: fmt.Sprintf("budget exceeded at n=%d", len(s))})
					return
				}
				if pan != nil {
					r.Violate(core.Violation{Property: "C06", Scope: name, Kind: kind + "-growth-panic", Inputs: []string{fam, fmt.Sprint(n)}, Expected: "no panic", Got: fmt.Sprint(pan)})
					return
				}
				counts = append(counts, used)
			}
			k := len(counts)
			if steps.Available && k >= 2 && counts[k-2] > 20000 {
				ratio := float64(counts[k-1]) / float64(counts[k-2])
				r.SetAdd("growth-class", fmt.Sprintf("%.0fx", ratio))
				if ratio > 4.6 {
					r.Violate(core.Violation{Property: "C06", Scope: name, Kind: kind + "-growth-superquadratic", Inputs: []string{fam, fmt.Sprint(sizes[k-1])}, Expected: "steps(2n)/steps(n) <= 4.6 (at most quadratic)", Got: fmt.Sprintf("steps(%d)=%d steps(%d)=%d ratio=%.2f", sizes[k-2], counts[k-2], sizes[k-1], counts[k-1], ratio)})
				}
			}
		}
		if name == "vers" {
			fams := []struct {
				name string
				gen  func(n int) string
			}{
				{"many-ne", func(n int) string { return "vers:npm/" + strings.Repeat("!=1.0.0|", n/8) + ">=0.0.1" }},
				{"many-bounds", func(n int) string {
					var b strings.Builder
					b.WriteString("vers:npm/")
					for i := 0; i < n/16; i++ {
						fmt.Fprintf(&b, ">=%d.0.0|<%d.5.0|", i, i)
					}
					b.WriteString(">=99999.0.0")
					return b.String()
				}},
				{"bars", func(n int) string { return "vers:npm/>=1.0.0" + strings.Repeat("|", n) }},
				{"spaces", func(n int) string { return "vers:npm/>=1.0.0" + strings.Repeat(" ", n) + "|<2.0.0" }},
				{"long-scheme", func(n int) string { return "vers:" + strings.Repeat("a", n) + "/>=1" }},
				{"long-version", func(n int) string { return "vers:maven/>=" + strings.Repeat("1.", n/2) + "1" }},
			}
			for _, f := range fams {
				measure("vers", f.name, f.gen, func(s string) { vers.Contains(s, "1.5.0") })
			}
			measure("vers", "long-probe", func(n int) string { return strings.Repeat("1.", n/2) + "1" }, func(s string) { vers.Contains("vers:maven/>=1.0", s) })
			return
		}
		e := eco.ByName(name)
		for _, f := range c06Families {
			measure("version", f.name, f.gen, func(s string) {
				if v, err := e.Parse(s); err == nil {
					v.Compare(v)
					_ = v.String()
					// against a short version as well (padding / compare-with-nothing paths)
					if p, err := e.Parse(gen.RangeBounds[name][0]); err == nil {
						v.Compare(p)
						p.Compare(v)
					}
				}
			})
			measure("range", f.name, f.gen, func(s string) {
				if rg, err := e.ParseRange(s); err == nil {
					if v, err := e.Parse(gen.RangeBounds[name][0]); err == nil {
						rg.Contains(v)
					}
				}
			})
		}
		if lvl > 0 {
			measure("version", "digit-run-100k", func(n int) string { return strings.Repeat("1", n*6) }, func(s string) {
				if v, err := e.Parse(s); err == nil {
					v.Compare(v)
				}
			})
		}
	}}
}

func init() {
	core.Register(&core.Prop{
		ID:    "C06",
		Title: "Every entry point is total: no panic, no hang, value xor error",
		Units: func(tier string) []core.Unit {
			var us []core.Unit
			lvl := level(tier)
			for _, n := range gen.EcoNames {
				us = append(us, c06EcoUnit(n, lvl), c06GrowthUnit(n, lvl))
			}
			us = append(us, c06VersUnit(lvl), c06GrowthUnit("vers", lvl))
			us = append(us, core.Unit{Name: "C06/cli", Weight: 5, Run: func(r *core.Result) {
				srv, err := cli.Start()
				if err != nil {
					r.Internalf("cannot start CLI server: %v", err)
					return
				}
				defer srv.Close()
				pool := []string{"", " ", "-", "--", "npm", "vers", "compare", "sort", "contains", "1.0.0", ">=1.0.0", "vers:npm/*", "\x00", "é", "[", strings.Repeat("1", 5000)}
				vectors := c15ArgVectors(pool, 3)
				// longer command lines with several invalid arguments at once
				for _, head := range [][]string{{"npm", "sort"}, {"npm", "compare"}, {"npm", "contains"}, {"vers", "contains"}, {"debian", "sort"}} {
					for _, tail := range c15ArgVectors([]string{"", "-", "not a version", "1.0.0", ">=1.0.0"}, 3) {
						vectors = append(vectors, append(append([]string{}, head...), tail...))
					}
				}
				for _, argv := range vectors {
					resp, err := srv.Call(argv)
					r.Add("evaluations", 1)
					r.Add("states", 1)
					if err != nil {
						r.Internalf("cli server: %v", err)
						return
					}
					if resp.Panic != "" {
						r.Violate(core.Violation{Property: "C06", Scope: "cli", Kind: "cli-panic", Inputs: argv, Expected: "no panic", Got: resp.Panic})
					} else if resp.Code != 0 && (resp.Code != 1 || strings.TrimSpace(resp.Out) == "") {
						r.Violate(core.Violation{Property: "C06", Scope: "cli", Kind: "cli-failure-form", Inputs: argv, Expected: "failure = exit 1 with a diagnostic", Got: fmt.Sprintf("code=%d out=%q", resp.Code, resp.Out)})
					}
				}
			}})
			return us
		},
		Replay: func(v *core.Violation) (bool, string) {
			res := core.NewResult()
			switch {
			case v.Scope == "cli":
				srv, err := cli.Start()
				if err != nil {
					return false, err.Error()
				}
				defer srv.Close()
				resp, _ := srv.Call(v.Inputs)
				return resp.Panic != "" || (resp.Code != 0 && (resp.Code != 1 || strings.TrimSpace(resp.Out) == "")), fmt.Sprintf("code=%d panic=%q", resp.Code, resp.Panic)
			case strings.Contains(v.Kind, "-growth-"):
				c06GrowthUnit(v.Scope, 1).Run(res)
				for _, n := range res.New {
					if n.Kind == v.Kind && n.Inputs[0] == v.Inputs[0] {
						return true, n.Got
					}
				}
				return false, "family within budget"
			case v.Scope == "vers":
				var got bool
				var err error
				pan, exc, _ := withBudget(len(v.Inputs[0])+len(v.Inputs[1]), func() { got, err = vers.Contains(v.Inputs[0], v.Inputs[1]) })
				return pan != nil || exc || (err != nil && got), fmt.Sprintf("panic=%v exceeded=%v got=%v err=%v", pan, exc, got, err)
			}
			e := eco.ByName(v.Scope)
			c := &c06Ctx{r: res, name: v.Scope, e: e, probes: c06Probes(e)}
			if strings.HasPrefix(v.Kind, "version") {
				c.checkVersion(v.Inputs[0])
			} else {
				c.checkRange(v.Inputs[0])
			}
			if res.NewCount > 0 {
				return true, res.New[0].Got
			}
			return false, "total"
		},
		Finalize: func(r *core.Result, tier string) map[string]any {
			return map[string]any{
				"states":                        r.Counters["states"],
				"transitions":                   r.Counters["evaluations"],
				"traces_validated_against_impl": r.Counters["evaluations"],
				"evaluations":                   r.Counters["evaluations"],
				"distinct_nontrivial":           r.Counters["accepted"],
				"statement_counter":             steps.Available,
			}
		},
		Rule:        "for all 20 ecosystems, NewVersion and NewVersionRange are run on EVERY string of length <= 3 (quick) / 4 (thorough) over the 24-character syntax alphabet [0 1 a x . - ~ ^ * , | = < > ! [ ( ] ) SP _ : + v], on the grammar-shaped candidates of the other checks, on every comparator and shorthand operator (^ ~ ~> ~= = == != .* .x brackets, hyphen) applied to every accepted universe version and probed also with that version, on every operator applied to every dotted shape of 1-6 components over {1,0,10,x,*,empty}, and on every accepted string of length <= 3 with each of 10 byte-level specials (NUL, 0x7f, 0x80, 0xff, e-acute, an Arabic-Indic digit, NBSP, TAB, LF, CR) inserted before / substituted at every position; 11 byte sequences whose length changes under case folding or UTF-8 repair (0xff, 0xff 0xff, U+023A, U+0130, U+212A, U+1E9E, sharp s, dotless i, truncated multi-byte prefixes) before / inside / after EVERY string of length <= 2 over the alphabet (accepted or not) and at every position of a 120-member stride sample of the universe, as version and as range; vers.Contains on 'vers:<scheme>/' + every string <= L over a 16-character alphabet for 11 schemes + 2 invalid ones, as range and as probe, plus raw strings and the byte-level and length-changing specials at every position of one two-interval range per scheme and of short / upper-case vers strings, plus 6 multi-interval forms whose later bounds come from a list of 31 range-unsafe tokens ('3,0', '[3', '3 - 4', ...) probed inside the earlier interval, plus every comparator sequence of length 1..5 over {>= < = != > <=} (valid and invalid alternations) on increasing versions for 6 schemes; CLI vectors (all argv of length <= 3 over 16 strings, and 5 command heads x all tails of length <= 3 over 5 strings, several invalid arguments at once); 25 growth families (digit runs, separator runs, operator runs, brackets, || and comma repetition ...) at n = 1k..4k (thorough ..16k, digit runs 96k) for every parser. Oracle: no panic; exactly one of value/error; follow-up Compare/String/Contains (twice on the same range object) do not panic; error => false for vers; every call stays within 50*n^2+1e6 injected-statement steps (an exceeded budget aborts the call deterministically - this is how hangs are detected) and steps(2n)/steps(n) <= 4.6 for every family. distinct_nontrivial = accepted inputs (those that exercise the follow-up operations).",
		Assumptions: []string{"statements are counted by overlay-injected counters in the repository's own sources; standard-library loops (regexp, strings, strconv) are not counted and are trusted to be at most quadratic", "the quantifier's coverage-guided fuzzing is not used (sampling); strings over characters outside the alphabet and specials are not explored"},
	})
}
