package props

import (
	"fmt"
	"strings"

	"verif/engine/core"
	"verif/engine/eco"
	"verif/engine/gen"
	"verif/engine/order"
	"verif/engine/univ"
)

func level(tier string) int {
	if tier == "thorough" {
		return 1
	}
	return 0
}

// alpmGroup partitions alpm versions for the scoped exclusion of C01/C20: 0 = no '-' after the
// epoch (no pkgrel under any reading), 1 = ends in -<digits> (explicit pkgrel under any reading),
// 2 = contains '-' but does not end in -<digits> (vercmp reads a pkgrel, go-univers does not).
func alpmGroup(s string) int {
	s = strings.TrimSpace(s)
	if i := strings.Index(s, ":"); i >= 0 {
		s = s[i+1:]
	}
	i := strings.LastIndex(s, "-")
	if i < 0 {
		return 0
	}
	t := s[i+1:]
	if t == "" {
		return 2
	}
	for _, c := range t {
		if c < '0' || c > '9' {
			return 2
		}
	}
	return 1
}

func c01Unit(name string, lvl int) core.Unit {
	return core.Unit{Name: name, Weight: 10, Run: func(r *core.Result) {
		e := eco.ByName(name)
		u := univ.Versions(e, lvl)
		n := len(u.Strs)
		r.AddScope(name, "universe", int64(n))
		r.AddScope(name, "candidates", int64(u.Candidates))
		r.Add("states", int64(u.Candidates))
		if n < 50 {
			r.Internalf("C01 %s: universe too small (%d)", name, n)
			return
		}
		// the values of a first and of a second parse of the same text are Compare-equal
		for i := range u.Vers0 {
			c1, p1 := eco.SafeCompare(u.Vers0[i], u.Vers[i])
			c2, p2 := eco.SafeCompare(u.Vers[i], u.Vers0[i])
			if p1 != nil || p2 != nil || c1 != 0 || c2 != 0 {
				r.Violate(core.Violation{Property: "C01", Scope: name, Kind: "reflexive-across-parses", Inputs: []string{u.Strs[i], u.Strs[i]},
					Expected: "two parses of one text compare equal (Compare(a,a)=0)", Got: fmt.Sprintf("Compare(first,second)=%d Compare(second,first)=%d", c1, c2)})
			}
		}
		m := order.Build(u.Vers)
		r.Add("compare_calls", m.Calls)
		r.Add("pairs", int64(n)*int64(n))
		r.Add("triples_decided", int64(n)*int64(n)*int64(n))
		r.Sample("pair", map[string]any{"eco": name, "a": u.Strs[n/3], "b": u.Strs[2*n/3], "cmp": m.At(n/3, 2*n/3)})

		pv, _ := m.PairLaws(200)
		for _, p := range pv {
			r.Violate(core.Violation{Property: "C01", Scope: name, Kind: p.Kind,
				Inputs:   []string{u.Strs[p.I], u.Strs[p.J]},
				Expected: "Compare in {-1,0,1}, Compare(a,a)=0, Compare(a,b)=-Compare(b,a), no panic",
				Got:      fmt.Sprintf("Compare(a,b)=%d Compare(b,a)=%d", p.Got[0], p.Got[1])})
		}

		// Groups for the rank criterion (alpm: scoped exclusion; everyone else: one group).
		groups := map[int][]int{}
		for i, s := range u.Strs {
			g := 0
			if name == "alpm" {
				g = alpmGroup(s)
			}
			groups[g] = append(groups[g], i)
		}
		dirty := func(s string) bool {
			if r.Classifier == nil {
				return false
			}
			v := core.Violation{Property: "C01", Scope: name, Kind: "transitivity", Inputs: []string{s}}
			return r.Classifier(&v) != ""
		}
		for g := 0; g < 3; g++ {
			idx := groups[g]
			if len(idx) == 0 {
				continue
			}
			rank, off, wit := m.Rank(idx, 30)
			if off == 0 {
				_, nc := order.Classes(rank)
				r.AddScope(name, "classes", int64(nc))
				r.Add("classes", int64(nc))
				// non-trivial triples: pairwise distinct strings, not all three in one class
				r.Add("nontrivial_triples_lower_bound", int64(nc)*int64(nc-1)*int64(nc-2))
				continue
			}
			// Some triple fails. Is it confined to elements of known-finding classes?
			var clean []int
			for _, i := range idx {
				if !dirty(u.Strs[i]) {
					clean = append(clean, i)
				}
			}
			if len(clean) < len(idx) {
				crank, coff, cwit := m.Rank(clean, 30)
				if coff > 0 {
					for _, t := range cwit {
						r.Violate(tripleViolation(name, u, t))
					}
					if len(cwit) == 0 {
						r.Internalf("C01 %s: rank criterion fails on clean sub-universe but no witness triple found", name)
					}
				} else {
					_, nc := order.Classes(crank)
					r.AddScope(name, "classes_clean", int64(nc))
					r.Add("classes", int64(nc))
					r.Add("nontrivial_triples_lower_bound", int64(nc)*int64(nc-1)*int64(nc-2))
				}
				r.AddScope(name, "clean_universe", int64(len(clean)))
			}
			// Report (and attribute) the witnesses of the full group.
			for _, t := range wit {
				r.Violate(tripleViolation(name, u, t))
			}
			r.AddScope(name, "offending_pairs", off)
			if len(wit) == 0 {
				r.Internalf("C01 %s: rank criterion fails (%d pairs) but no witness triple found", name, off)
			}
		}
	}}
}

func tripleViolation(name string, u *univ.Universe, t order.Triple) core.Violation {
	return core.Violation{Property: "C01", Scope: name, Kind: "transitivity",
		Inputs:   []string{u.Strs[t.A], u.Strs[t.B], u.Strs[t.C]},
		Expected: "a<=b and b<=c imply a<=c (strict if either step is strict)",
		Got:      fmt.Sprintf("Compare(a,b)=%d Compare(b,c)=%d Compare(a,c)=%d", t.AB, t.BC, t.AC)}
}

func init() {
	core.Register(&core.Prop{
		ID:    "C01",
		Title: "Version comparison is a total preorder in every ecosystem",
		Units: func(tier string) []core.Unit {
			var us []core.Unit
			for _, n := range gen.EcoNames {
				us = append(us, c01Unit(n, level(tier)))
			}
			return us
		},
		Replay: func(v *core.Violation) (bool, string) {
			e := eco.ByName(v.Scope)
			if e == nil {
				return false, "unknown ecosystem"
			}
			var vs []eco.Ver
			for _, s := range v.Inputs {
				x, err := eco.SafeParse(e, s)
				if err != nil {
					return false, "input no longer accepted: " + s
				}
				vs = append(vs, x)
			}
			cmp := func(i, j int) (int, bool) {
				c, p := eco.SafeCompare(vs[i], vs[j])
				return c, p != nil
			}
			switch v.Kind {
			case "transitivity":
				ab, p1 := cmp(0, 1)
				bc, p2 := cmp(1, 2)
				ac, p3 := cmp(0, 2)
				if p1 || p2 || p3 {
					return true, "panic"
				}
				d := fmt.Sprintf("Compare(a,b)=%d Compare(b,c)=%d Compare(a,c)=%d", ab, bc, ac)
				if ab <= 0 && bc <= 0 {
					if ac > 0 || ((ab < 0 || bc < 0) && ac >= 0) {
						return true, d
					}
				}
				return false, d
			default:
				ab, p1 := cmp(0, 1)
				ba, p2 := cmp(1, 0)
				aa, p3 := cmp(0, 0)
				d := fmt.Sprintf("Compare(a,b)=%d Compare(b,a)=%d Compare(a,a)=%d", ab, ba, aa)
				if p1 || p2 || p3 {
					return true, "panic " + d
				}
				if ab < -1 || ab > 1 || ba < -1 || ba > 1 || aa != 0 || ab != -ba {
					return true, d
				}
				if len(v.Inputs) == 2 && v.Inputs[0] == v.Inputs[1] && ab != 0 {
					return true, d + " (two parses of one text)"
				}
				return false, d
			}
		},
		Finalize: func(r *core.Result, tier string) map[string]any {
			return map[string]any{
				"states":                        r.Counters["states"],
				"transitions":                   gen.S.Transitions + r.Counters["compare_calls"],
				"traces_validated_against_impl": r.Counters["compare_calls"],
				"evaluations":                   r.Counters["compare_calls"],
				"distinct_nontrivial":           r.Counters["nontrivial_triples_lower_bound"],
				"triples_decided":               r.Counters["triples_decided"],
			}
		},
		Rule:        "per ecosystem: every candidate string from the token grammar, from all-strings<=L over the lexical alphabet, from the leading-zero family and from the one-slot substitution closure of the ecosystem's typical shapes (each digit run x 22 numeric tokens incl. 2^16/2^32/2^53/2^64 neighbours, each letter run x 32 words, each separator x 9 separators, appended tokens) is parsed; all ordered pairs of accepted strings are compared with the real Compare (both argument orders); sign range/reflexivity/antisymmetry per pair (reflexivity also between the values of two separate parses of one text, and all comparisons use the second parse); transitivity for all N^3 triples by the rank criterion. states = candidate strings enumerated; transitions = generator token appends + Compare calls. distinct_nontrivial = number of ordered triples of pairwise different equivalence classes (c*(c-1)*(c-2) per ecosystem), a lower bound on triples that are pairwise distinct and not all equal.",
		Assumptions: []string{"strings outside the enumerated grammar/alphabet bounds are not covered", "alpm: triples mixing versions with and without an explicit pkgrel are excluded as the property states (three groups: no '-', ends in -digits, other '-')"},
	})
}
