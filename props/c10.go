package props

import (
	"verif/engine/gen"
	"verif/engine/ref"
)

func init() {
	spec := &refSpec{Prop: "C10", Eco: "debian", Blocks: 16,
		Candidates: func(lvl int) []string {
			g := gen.Versions("debian", lvl)
			// multi-hyphen and long-digit-run shapes
			g = gen.Alt(g,
				gen.Seq(gen.Lit("1", "1-1", "1-2", "2", "2-1"), gen.Lit("-1", "-2", "-1-1", "-2-1")),
				gen.Seq(gen.Lit("1.", "1-"), gen.Lit("18446744073709551616", "18446744073709551617", "0000000000000000000000001", "99999999999999999999", "100000000000000000000", "18446744073709551615", "2", "02")),
			)
			m := gen.Magnitudes
			g = gen.Alt(g, gen.Seq(gen.Lit("1.", "1-", "1a", "1:1.", "1~", "1+"), m), gen.Seq(m, gen.Lit(":1", "", "-1", ".1", "a")), gen.Seq(gen.Lit("1.", "1-", "1a", "1~"), gen.LeadingZeros), gen.Seq(gen.Lit("1.", "1-"), gen.Lit("7", "8", "9", "10", "11")), gen.Seq(gen.Alt(gen.LeadingZeros, gen.Lit("7", "8", "9", "10")), gen.Lit(":1", ":1.0")), gen.Seq(gen.Lit("0:", "1:", ""), gen.Lit("0.9.8", "0.1", "0", "00.1", "0-1", "0.9.8-1")))
			return g
		},
		Valid: ref.DebianValid,
		Cmp:   ref.DebianCompare,
	}
	registerRef("C10", "Debian versions order as dpkg --compare-versions does", []*refSpec{spec},
		"every candidate from the debian token grammar and all strings <= L over [0 1 9 a z . + ~ - :] that both the implementation and dpkg's validity rules accept; all ordered pairs compared with the real Compare against a Go port of dpkg's verrevcmp/epoch/revision comparison. distinct_nontrivial = pairs the reference orders strictly.",
		[]string{"the Go port of verrevcmp is the oracle; it is replayed against Dpkg::Version by conformance/dpkg.sh", "strings outside the enumerated universe are not covered"},
		[]string{"engine/ref/debian.go (port of dpkg lib/dpkg/version.c), conformance-checked against the installed dpkg 1.21.22"},
		"conformance/dpkg.sh")
}
