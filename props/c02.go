package props

import (
	"fmt"
	"strings"

	"verif/engine/core"
	"verif/engine/eco"
	"verif/engine/gen"
	"verif/engine/univ"
)

// boundOK applies the property's scoping rule for bounds: the text must not begin with a
// comparator character and must not contain the ecosystem's separator characters.
func boundOK(name, s string) bool {
	if s == "" || s != strings.TrimSpace(s) {
		return false
	}
	if strings.ContainsAny(s[:1], "<>=!~^*") {
		return false
	}
	if strings.ContainsAny(s, " ,|\t\n\r") {
		return false
	}
	return true
}

// stride picks at most n elements, evenly spaced, always including the first and last.
func stride(idx []int, n int) []int {
	if len(idx) <= n {
		return idx
	}
	out := make([]int, 0, n)
	for k := 0; k < n; k++ {
		out = append(out, idx[k*(len(idx)-1)/(n-1)])
	}
	return out
}

func signOf(c int) int {
	if c < 0 {
		return -1
	}
	if c > 0 {
		return 1
	}
	return 0
}

var c02KwCache []string

// c02KeywordVersions: version-like strings whose identifiers contain words used by some range
// syntax, alone and embedded in longer words, under every common separator.
func c02KeywordVersions() []string {
	if c02KwCache != nil {
		return c02KwCache
	}
	words := []string{"and", "or", "AND", "OR", "And", "candidate", "stand", "android", "oracle", "for", "xor", "nor", "not", "to", "in", "x", "X", "v", "vx", "any", "latest", "stable", "dev", "as", "is"}
	tmpl := []string{"1.0.0-%s", "1.0.0-%s.1", "1.0.0-1.%s", "1.0-%s", "1.0.%s", "1.0%s", "1.0_%s", "1.0~%s", "1.0+%s", "1.0.0+%s", "1.0.%s-1", "1:1.0%s-1", "1.0.0-rc.%s", "1.0%s1"}
	for _, t := range tmpl {
		for _, w := range words {
			c02KwCache = append(c02KwCache, fmt.Sprintf(t, w))
		}
	}
	return c02KwCache
}

func c02Unit(name string, lvl int) core.Unit {
	return core.Unit{Name: name, Weight: 10, Run: func(r *core.Result) {
		e := eco.ByName(name)
		syn := gen.SyntaxTable[name]
		if len(syn.Ops) == 0 {
			r.Notef("%s: no comparator syntax (brackets only, see C05)", name)
			return
		}
		u0 := univ.Versions(e, lvl)
		u := &univ.Universe{Eco: e, Strs: append([]string{}, u0.Strs...), Vers: append([]eco.Ver{}, u0.Vers...)}
		// versions whose text embeds a word of some range syntax ("and", "or", "x", "to", "v" ...):
		// a keyword search on the raw range text must not fire inside a bound
		kwFirst := len(u.Strs)
		for _, s := range c02KeywordVersions() {
			if v, err := eco.SafeParse(e, s); err == nil {
				u.Strs, u.Vers = append(u.Strs, s), append(u.Vers, v)
			}
		}
		// bounds: all admissible members of U_E, thinned by stride; always keep the members that
		// contain a letter not seen so far (reaches letter-triggered routing such as npm's 'x').
		var adm []int
		for i, s := range u.Strs {
			if boundOK(name, s) {
				adm = append(adm, i)
			}
		}
		nA, nV, nA2, nV2 := 120, 160, 12, 30
		if lvl > 0 {
			nA, nV, nA2, nV2 = 400, 500, 24, 60
		}
		boundSet := map[int]bool{}
		for _, i := range stride(adm, nA) {
			boundSet[i] = true
		}
		seenLetter := map[rune]bool{}
		seenTok := map[string]bool{}
		for _, i := range adm {
			if i >= kwFirst {
				boundSet[i] = true
			}
			// members with a component of 5 or more digits (width- and magnitude-dependent shortcuts)
			if bigComponent.MatchString(u.Strs[i]) && len(u.Strs[i]) < 24 {
				boundSet[i] = true
			}
			for _, c := range u.Strs[i] {
				if (c >= 'a' && c <= 'z' || c >= 'A' && c <= 'Z') && !seenLetter[c] {
					seenLetter[c] = true
					boundSet[i] = true
				}
			}
			// one bound per distinct (separator, single-letter identifier) pair: an identifier that
			// is exactly "x", "X", "a" ... after '.', '-' or '+' may be routed to special syntax
			s := u.Strs[i]
			for k := 1; k < len(s); k++ {
				c := s[k]
				if (c >= 'a' && c <= 'z' || c >= 'A' && c <= 'Z') && strings.ContainsRune(".-+_~", rune(s[k-1])) && (k+1 == len(s) || strings.ContainsRune(".-+_~", rune(s[k+1]))) {
					key := s[k-1 : k+1]
					if !seenTok[key] {
						seenTok[key] = true
						boundSet[i] = true
					}
				}
			}
		}
		var A []int
		for _, i := range adm {
			if boundSet[i] {
				A = append(A, i)
			}
		}
		all := make([]int, len(u.Strs))
		for i := range all {
			all[i] = i
		}
		V := stride(all, nV)
		// make sure every bound is also a probe (equality cases)
		inV := map[int]bool{}
		for _, i := range V {
			inV[i] = true
		}
		for _, i := range A {
			if !inV[i] {
				V = append(V, i)
				inV[i] = true
			}
		}
		r.AddScope(name, "bounds", int64(len(A)))
		r.AddScope(name, "probes", int64(len(V)))
		r.Add("states", int64(len(A)*len(syn.Ops)))

		type rg struct {
			rng eco.Rng
			ok  bool
		}
		// Two phases: every range of the unit is parsed first and evaluated afterwards, so that
		// range values that share hidden state (a parser scratch buffer, a cache) interfere.
		type job struct {
			rr       eco.Rng
			rangeStr string
			want     func(v eco.Ver) (bool, bool)
			probes   []int
			kind     string
			parts    []string
		}
		var jobs []job
		var evaluate func(j job)
		check := func(rangeStr string, want func(v eco.Ver) (bool, bool), probes []int, kind string, parts []string) {
			rr, err := eco.SafeParseRange(e, rangeStr)
			r.Add("range_parses", 1)
			if err != nil && kind == "and3" {
				// mixing two AND separators in one range is not a documented form everywhere:
				// only ranges the parser accepts are judged
				r.AddScope(name, "mixed_separator_ranges_rejected", 1)
				return
			}
			if err != nil {
				r.Violate(core.Violation{Property: "C02", Scope: name, Kind: kind + "-rejected",
					Inputs: append([]string{rangeStr}, parts...), Expected: "range parses", Got: "error: " + err.Error()})
				return
			}
			jobs = append(jobs, job{rr, rangeStr, want, probes, kind, parts})
			if len(jobs) >= 20000 {
				for _, j := range jobs {
					evaluate(j)
				}
				jobs = jobs[:0]
			}
		}
		defer func() {
			for _, j := range jobs {
				evaluate(j)
			}
		}()
		evaluate = func(j job) {
			rr, rangeStr, want, probes, kind, parts := j.rr, j.rangeStr, j.want, j.probes, j.kind, j.parts
			for _, vi := range probes {
				w, ok := want(u.Vers[vi])
				if !ok {
					continue
				}
				got, p := eco.SafeContains(rr, u.Vers[vi])
				r.Add("evaluations", 1)
				if p != nil {
					r.Violate(core.Violation{Property: "C02", Scope: name, Kind: kind + "-panic",
						Inputs: append([]string{rangeStr, u.Strs[vi]}, parts...), Expected: "no panic", Got: p.Error()})
					continue
				}
				if got {
					r.Add("true_results", 1)
				}
				if got != w {
					r.Violate(core.Violation{Property: "C02", Scope: name, Kind: kind,
						Inputs: append([]string{rangeStr, u.Strs[vi]}, parts...), Expected: fmt.Sprintf("Contains=%v (from Compare)", w), Got: fmt.Sprintf("Contains=%v", got)})
				}
			}
		}
		cmp := func(v, b eco.Ver) (int, bool) {
			c, p := eco.SafeCompare(v, b)
			return signOf(c), p == nil
		}
		// single comparators
		for _, op := range syn.Ops {
			for _, ai := range A {
				a := u.Vers[ai]
				rs := op + u.Strs[ai] + syn.SingleSuffix
				check(rs, func(v eco.Ver) (bool, bool) {
					c, ok := cmp(v, a)
					return gen.Sat(op, c), ok
				}, V, "single", []string{op, u.Strs[ai]})
			}
		}
		// every member of the one-slot substitution family as a bound (not only the stride sample),
		// on a reduced probe set: 40 stride probes plus the bound itself
		slot := map[string]bool{}
		for _, s := range gen.SlotFamily(name) {
			slot[s] = true
		}
		Vs := stride(all, 40)
		nslot := 0
		for _, ai := range adm {
			if !slot[u.Strs[ai]] || boundSet[ai] {
				continue
			}
			nslot++
			a := u.Vers[ai]
			probes := append(append([]int{}, Vs...), ai)
			// up to 3 Compare-equal members with another spelling (build metadata, prefixes,
			// padding zeros): '=' and '!=' must not be textual
			eq := 0
			for vi := range u.Vers {
				if vi == ai || eq >= 3 {
					continue
				}
				if c, p := eco.SafeCompare(u.Vers[vi], a); p == nil && c == 0 {
					probes = append(probes, vi)
					eq++
				}
			}
			for _, op := range syn.Ops {
				rs := op + u.Strs[ai] + syn.SingleSuffix
				check(rs, func(v eco.Ver) (bool, bool) {
					c, ok := cmp(v, a)
					return gen.Sat(op, c), ok
				}, probes, "single", []string{op, u.Strs[ai]})
				r.Add("states", 1)
			}
		}
		r.AddScope(name, "slot_family_bounds", int64(nslot))
		r.Sample("single", map[string]any{"eco": name, "range": syn.Ops[0] + u.Strs[A[len(A)/2]], "probe": u.Strs[V[len(V)/2]]})
		// conjunctions and disjunctions
		A2 := stride(A, nA2)
		// siblings: admissible members that differ from an A2 member only in their LAST number
		// (rc1 / rc3, -r1 / -r2): de-duplication keys that forget that number merge two bounds
		{
			stem := func(s string) string {
				j := len(s)
				for j > 0 && s[j-1] >= '0' && s[j-1] <= '9' {
					j--
				}
				if j == len(s) || j == 0 {
					return ""
				}
				return s[:j]
			}
			inA2 := map[int]bool{}
			stems := map[string]bool{}
			for _, a := range A2 {
				inA2[a] = true
				if st := stem(u.Strs[a]); st != "" && strings.ContainsAny(st, "abcdefghijklmnopqrstuvwxyz") {
					stems[st] = true
				}
			}
			extra := 0
			for _, i := range adm {
				if extra >= 8 {
					break
				}
				if !inA2[i] && stems[stem(u.Strs[i])] {
					A2 = append(A2, i)
					inA2[i] = true
					extra++
				}
			}
		}
		V2 := stride(V, nV2)
		for _, a := range A2 {
			found := false
			for _, v := range V2 {
				if v == a {
					found = true
				}
			}
			if !found {
				V2 = append(V2, a)
			}
		}
		// three constraints joined by two DIFFERENT separators (splitters that re-use one buffer)
		if len(syn.And) >= 2 {
			A3 := stride(A2, 5)
			ops3 := []string{">=", "<", syn.Nots0()}
			for _, s1 := range syn.And {
				for _, s2 := range syn.And {
					if s1 == s2 {
						continue
					}
					for _, a1 := range A3 {
						for _, a2 := range A3 {
							for _, a3 := range A3 {
								for _, o3 := range ops3 {
									if o3 == "" {
										continue
									}
									b1, b2, b3 := u.Vers[a1], u.Vers[a2], u.Vers[a3]
									o3 := o3
									rs := ">=" + u.Strs[a1] + s1 + "<" + u.Strs[a2] + s2 + o3 + u.Strs[a3]
									check(rs, func(v eco.Ver) (bool, bool) {
										c1, ok1 := cmp(v, b1)
										c2, ok2 := cmp(v, b2)
										c3, ok3 := cmp(v, b3)
										return gen.Sat(">=", c1) && gen.Sat("<", c2) && gen.Sat(o3, c3), ok1 && ok2 && ok3
									}, V2, "and3", []string{">=", u.Strs[a1], s1, "<", u.Strs[a2], s2, o3, u.Strs[a3]})
									r.Add("states", 1)
								}
							}
						}
					}
				}
			}
		}
		for _, sep := range syn.And {
			for _, op1 := range syn.Ops {
				for _, op2 := range syn.Ops {
					for _, a1 := range A2 {
						for _, a2 := range A2 {
							b1, b2 := u.Vers[a1], u.Vers[a2]
							rs := op1 + u.Strs[a1] + sep + op2 + u.Strs[a2]
							check(rs, func(v eco.Ver) (bool, bool) {
								c1, ok1 := cmp(v, b1)
								c2, ok2 := cmp(v, b2)
								return gen.Sat(op1, c1) && gen.Sat(op2, c2), ok1 && ok2
							}, V2, "and", []string{op1, u.Strs[a1], sep, op2, u.Strs[a2]})
							r.Add("states", 1)
						}
					}
				}
			}
		}
		if syn.Or != "" {
			for _, orsep := range []string{" " + syn.Or + " ", syn.Or} {
				for _, op1 := range syn.Ops {
					for _, op2 := range syn.Ops {
						for _, a1 := range A2 {
							for _, a2 := range A2 {
								b1, b2 := u.Vers[a1], u.Vers[a2]
								rs := op1 + u.Strs[a1] + orsep + op2 + u.Strs[a2]
								check(rs, func(v eco.Ver) (bool, bool) {
									c1, ok1 := cmp(v, b1)
									c2, ok2 := cmp(v, b2)
									return gen.Sat(op1, c1) || gen.Sat(op2, c2), ok1 && ok2
								}, V2, "or", []string{op1, u.Strs[a1], orsep, op2, u.Strs[a2]})
								r.Add("states", 1)
							}
						}
					}
				}
			}
			// (x AND y) OR z
			op := syn.Ops
			for _, a1 := range stride(A2, 6) {
				for _, a2 := range stride(A2, 6) {
					for _, a3 := range stride(A2, 6) {
						b1, b2, b3 := u.Vers[a1], u.Vers[a2], u.Vers[a3]
						rs := op[0] + u.Strs[a1] + syn.And[0] + "<" + u.Strs[a2] + " " + syn.Or + " " + "=" + u.Strs[a3]
						check(rs, func(v eco.Ver) (bool, bool) {
							c1, ok1 := cmp(v, b1)
							c2, ok2 := cmp(v, b2)
							c3, ok3 := cmp(v, b3)
							return (gen.Sat(op[0], c1) && c2 < 0) || c3 == 0, ok1 && ok2 && ok3
						}, V2, "and-or", []string{u.Strs[a1], u.Strs[a2], u.Strs[a3]})
						r.Add("states", 1)
					}
				}
			}
		}
	}}
}

func init() {
	core.Register(&core.Prop{
		ID:    "C02",
		Title: "Comparator ranges contain exactly what Compare says",
		Units: func(tier string) []core.Unit {
			var us []core.Unit
			for _, n := range gen.EcoNames {
				us = append(us, c02Unit(n, level(tier)))
			}
			return us
		},
		Replay: func(v *core.Violation) (bool, string) {
			e := eco.ByName(v.Scope)
			rr, err := eco.SafeParseRange(e, v.Inputs[0])
			if strings.HasSuffix(v.Kind, "-rejected") {
				if err != nil {
					return true, "range rejected: " + err.Error()
				}
				return false, "range parses"
			}
			if err != nil {
				return true, "range rejected: " + err.Error()
			}
			pv, err := eco.SafeParse(e, v.Inputs[1])
			if err != nil {
				return false, "probe not accepted"
			}
			got, p := eco.SafeContains(rr, pv)
			if p != nil {
				return true, p.Error()
			}
			// recompute the expectation from the parts
			parts := v.Inputs[2:]
			sat := func(op, b string) (bool, bool) {
				bv, err := eco.SafeParse(e, b)
				if err != nil {
					return false, false
				}
				c, pp := eco.SafeCompare(pv, bv)
				return gen.Sat(op, signOf(c)), pp == nil
			}
			var want, ok bool
			switch v.Kind {
			case "single":
				want, ok = sat(parts[0], parts[1])
			case "and", "or":
				w1, ok1 := sat(parts[0], parts[1])
				w2, ok2 := sat(parts[3], parts[4])
				ok = ok1 && ok2
				if v.Kind == "and" {
					want = w1 && w2
				} else {
					want = w1 || w2
				}
			case "and3":
				w1, ok1 := sat(parts[0], parts[1])
				w2, ok2 := sat(parts[3], parts[4])
				w3, ok3 := sat(parts[6], parts[7])
				want, ok = w1 && w2 && w3, ok1 && ok2 && ok3
			case "and-or":
				syn := gen.SyntaxTable[v.Scope]
				w1, ok1 := sat(syn.Ops[0], parts[0])
				w2, ok2 := sat("<", parts[1])
				w3, ok3 := sat("=", parts[2])
				want, ok = (w1 && w2) || w3, ok1 && ok2 && ok3
			default:
				return got || !got, "panic kind no longer panics"
			}
			if !ok {
				return false, "expectation not computable"
			}
			d := fmt.Sprintf("Contains=%v want %v", got, want)
			return got != want, d
		},
		Finalize: func(r *core.Result, tier string) map[string]any {
			return map[string]any{
				"states":                        r.Counters["states"],
				"transitions":                   r.Counters["evaluations"] + r.Counters["range_parses"],
				"traces_validated_against_impl": r.Counters["evaluations"],
				"evaluations":                   r.Counters["evaluations"],
				"distinct_nontrivial":           r.Counters["true_results"],
			}
		},
		Rule:        "per ecosystem: every comparator of the documented syntax table x every bound of a stride sub-universe of U_E (plus one bound per distinct letter, every member with a component of 5 or more digits, and every accepted version whose identifiers contain a word of some range syntax: and/or/x/to/v... alone or embedded, under 14 separator templates); every accepted member of the one-slot substitution family of the ecosystem's typical shapes x every comparator x (40 stride probes + the bound itself + up to 3 Compare-equal respellings of it) x every probe; every comparator pair x AND separator x bound pair x probe (the bound sample is completed with siblings that differ only in their last number); three constraints joined by two different AND separators (judged only where the parser accepts the mixture); every comparator pair x OR separator; (x AND y) OR z. Expected value computed from the real Compare. states = distinct range strings built; transitions = range parses + Contains calls; distinct_nontrivial = evaluations whose result is true (range and probe interact non-vacuously).",
		Assumptions: []string{"bounds beginning with a comparator character or containing separator characters are out of scope (property text)", "syntax table (comparators, separators) is written from the documentation; maven has no comparator syntax"},
	})
}
