package props

import (
	"fmt"
	"strings"

	"github.com/alowayed/go-univers/pkg/spec/vers"

	"verif/engine/core"
	"verif/engine/eco"
	"verif/engine/gen"
)

func permutations(n int) [][]int {
	var out [][]int
	p := make([]int, n)
	for i := range p {
		p[i] = i
	}
	var rec func(k int)
	rec = func(k int) {
		if k == n {
			out = append(out, append([]int{}, p...))
			return
		}
		for i := k; i < n; i++ {
			p[k], p[i] = p[i], p[k]
			rec(k + 1)
			p[k], p[i] = p[i], p[k]
		}
	}
	rec(0)
	return out
}

// constraintPieces splits one constraint into the pieces between which a space may be inserted:
// [lead][op chars...][version first char][version rest][trail].
func spacedConstraint(op, ver string, mask int) string {
	// slots: 0 before, 1 inside op (2-char ops only), 2 between op and version, 3 inside version, 4 after
	var b strings.Builder
	if mask&1 != 0 {
		b.WriteByte(' ')
	}
	if len(op) == 2 && mask&2 != 0 {
		b.WriteString(op[:1] + " " + op[1:])
	} else {
		b.WriteString(op)
	}
	if mask&4 != 0 {
		b.WriteByte(' ')
	}
	if len(ver) > 1 && mask&8 != 0 {
		b.WriteString(ver[:1] + " " + ver[1:])
	} else {
		b.WriteString(ver)
	}
	if mask&16 != 0 {
		b.WriteByte(' ')
	}
	return b.String()
}

type versVariant struct {
	label string
	rng   string
}

// versVariants enumerates the equivalent spellings of a range.
func versVariants(scheme string, ops, vs []string, full bool) []versVariant {
	n := len(ops)
	prefix := "vers:" + scheme + "/"
	cs := make([]string, n)
	for i := range ops {
		cs[i] = ops[i] + vs[i]
	}
	var out []versVariant
	add := func(label string, parts []string) {
		out = append(out, versVariant{label, prefix + strings.Join(parts, "|")})
	}
	// all permutations
	for _, p := range permutations(n) {
		parts := make([]string, n)
		for i, j := range p {
			parts[i] = cs[j]
		}
		add(fmt.Sprintf("perm%v", p), parts)
	}
	// whitespace: slots are 5 per constraint. All subsets when <= 10 slots in total (n<=2);
	// beyond that every single slot, every pair of slots, and all slots together.
	slots := 5 * n
	applyMask := func(m uint64) []string {
		parts := make([]string, n)
		for i := range ops {
			parts[i] = spacedConstraint(ops[i], vs[i], int((m>>(5*uint(i)))&31))
		}
		return parts
	}
	if slots <= 10 {
		for m := uint64(1); m < 1<<uint(slots); m++ {
			add(fmt.Sprintf("space%b", m), applyMask(m))
		}
	} else {
		for a := 0; a < slots; a++ {
			add(fmt.Sprintf("space1@%d", a), applyMask(1<<uint(a)))
			if full {
				for b := a + 1; b < slots; b++ {
					add(fmt.Sprintf("space2@%d,%d", a, b), applyMask(1<<uint(a)|1<<uint(b)))
				}
			}
		}
		add("space-all", applyMask(1<<uint(slots)-1))
	}
	// a single space at every inner position of every version text
	for i := range ops {
		for k := 1; k < len(vs[i]); k++ {
			parts := append([]string{}, cs...)
			parts[i] = ops[i] + vs[i][:k] + " " + vs[i][k:]
			add(fmt.Sprintf("vspace@%d,%d", i, k), parts)
		}
	}
	// duplication of every non-empty subset: adjacent and at the far end
	for m := 1; m < 1<<uint(n); m++ {
		var adj, far []string
		far = append(far, cs...)
		for i := range cs {
			adj = append(adj, cs[i])
			if m&(1<<uint(i)) != 0 {
				adj = append(adj, cs[i])
				far = append(far, cs[i])
			}
		}
		add(fmt.Sprintf("dup-adj%b", m), adj)
		add(fmt.Sprintf("dup-far%b", m), far)
		// a duplicate with different spacing
		if m&(m-1) == 0 {
			var sp []string
			sp = append(sp, cs...)
			for i := range cs {
				if m&(1<<uint(i)) != 0 {
					sp = append(sp, spacedConstraint(ops[i], vs[i], 4))
				}
			}
			add(fmt.Sprintf("dup-spaced%b", m), sp)
		}
	}
	// empty constraints: every subset of the n+1 gaps gets an extra empty constraint
	for m := 1; m < 1<<uint(n+1); m++ {
		var parts []string
		for i := 0; i <= n; i++ {
			if m&(1<<uint(i)) != 0 {
				parts = append(parts, "")
				if i == n {
					// a trailing empty constraint
				}
			}
			if i < n {
				parts = append(parts, cs[i])
			}
		}
		add(fmt.Sprintf("empty%b", m), parts)
		if m == 1<<uint(n+1)-1 {
			// blank (spaces only) instead of empty
			var bl []string
			for _, p := range parts {
				if p == "" {
					p = " "
				}
				bl = append(bl, p)
			}
			add("blank-all", bl)
		}
	}
	// more than 16 pieces: 20 empty constraints behind, in front, and 20 repeats of the first
	{
		many := append([]string{}, cs...)
		front := []string{}
		rep := append([]string{}, cs...)
		for i := 0; i < 20; i++ {
			many = append(many, "")
			front = append(front, "")
			rep = append(rep, cs[0])
		}
		add("empty-many-behind", many)
		add("empty-many-front", append(front, cs...))
		add("dup-many", rep)
	}
	// combined: reversed order + a space + a duplicate + an empty constraint
	if n >= 2 {
		var parts []string
		for i := n - 1; i >= 0; i-- {
			parts = append(parts, spacedConstraint(ops[i], vs[i], 4))
		}
		parts = append(parts, "", cs[0])
		add("combined", parts)
	}
	return out
}

func versCall(r, probe string) (got bool, errish bool, panicked bool) {
	defer func() {
		if x := recover(); x != nil {
			panicked = true
		}
	}()
	g, err := vers.Contains(r, probe)
	return g, err != nil, false
}

func c16MaxN(tier string) int {
	if tier == "thorough" {
		return 6
	}
	return 3
}

func c16Unit(scheme string, n int, tier string) core.Unit {
	return core.Unit{Name: fmt.Sprintf("C16/%s/n%d", scheme, n), Weight: 1 << uint(3*n), Run: func(r *core.Result) {
		shapes := versShapes(n)
		pools := versPools[scheme]
		full := tier == "thorough" || n <= 3
		for pi, pool := range pools {
			if pi > 0 && n > 3 {
				break
			}
			for si, ops := range shapes {
				if n == 5 && si%4 != 0 {
					continue // thorough n=5: every 4th shape (stated in the rule)
				}
				if n == 6 && si%64 != 0 {
					continue // thorough n=6: every 64th shape, all 720 permutations of each
				}
				vs := make([]string, n)
				for i := range vs {
					vs[i] = pool[2*i+1]
				}
				canon := versRangeString(scheme, ops, vs)
				probes := pool[:min(len(pool), 2*n+2)]
				type res struct{ got, err bool }
				base := make([]res, len(probes))
				for i, p := range probes {
					g, e, pn := versCall(canon, p)
					if pn {
						r.Violate(core.Violation{Property: "C16", Scope: scheme, Kind: "panic", Inputs: []string{canon, p, canon}, Expected: "no panic", Got: "panic"})
					}
					base[i] = res{g, e}
				}
				r.Add("states", 1)
				for _, v := range versVariants(scheme, ops, vs, full) {
					r.Add("variants", 1)
					for i, p := range probes {
						g, e, pn := versCall(v.rng, p)
						r.Add("evaluations", 1)
						if base[i].got {
							r.Add("true_results", 1)
						}
						if pn || g != base[i].got || e != base[i].err {
							kind := strings.SplitN(strings.TrimRight(v.label, "0123456789[], @"), "-", 2)[0]
							kind = strings.TrimRight(kind, "0123456789")
							r.Violate(core.Violation{Property: "C16", Scope: scheme, Kind: "variant-" + kind,
								Inputs: []string{v.rng, p, canon}, Expected: fmt.Sprintf("same as canonical spelling: %v err=%v", base[i].got, base[i].err), Got: fmt.Sprintf("%v err=%v panic=%v", g, e, pn), Note: v.label})
						}
					}
				}
				if si == len(shapes)/2 && pi == 0 {
					vv := versVariants(scheme, ops, vs, full)
					r.Sample("variant", map[string]any{"scheme": scheme, "canonical": canon, "variant": vv[len(vv)/2].rng, "label": vv[len(vv)/2].label})
				}
			}
		}
	}}
}

// c16StarUnit: the match-all range under whitespace and empty constraints.
func c16StarUnit(scheme string) core.Unit {
	return core.Unit{Name: "C16/" + scheme + "/star", Weight: 1, Run: func(r *core.Result) {
		canon := "vers:" + scheme + "/*"
		var probes []string
		for _, pool := range versPools[scheme] {
			probes = append(probes, pool...)
		}
		probes = append(probes, "", "not a version", "*")
		var variants []string
		pads := []string{"", " ", "  "}
		for _, a := range pads {
			for _, b := range pads {
				star := a + "*" + b
				variants = append(variants, star)
				for _, e := range []string{"", " "} {
					variants = append(variants, e+"|"+star, star+"|"+e, e+"|"+star+"|"+e, e+"|"+e+"|"+star, star+"|"+e+"|"+e)
				}
			}
		}
		r.Add("states", 1)
		for _, p := range probes {
			bg, be, pn := versCall(canon, p)
			if pn {
				r.Violate(core.Violation{Property: "C16", Scope: scheme, Kind: "panic", Inputs: []string{canon, p, canon}, Expected: "no panic", Got: "panic"})
			}
			for _, v := range gen.Uniq(variants) {
				rng := "vers:" + scheme + "/" + v
				g, e, pn := versCall(rng, p)
				r.Add("variants", 1)
				r.Add("evaluations", 1)
				if bg {
					r.Add("true_results", 1)
				}
				if pn || g != bg || e != be {
					r.Violate(core.Violation{Property: "C16", Scope: scheme, Kind: "variant-star",
						Inputs: []string{rng, p, canon}, Expected: fmt.Sprintf("same as canonical spelling: %v err=%v", bg, be), Got: fmt.Sprintf("%v err=%v panic=%v", g, e, pn), Note: "star"})
				}
			}
		}
	}}
}

func init() {
	core.Register(&core.Prop{
		ID:    "C16",
		Title: "VERS results ignore constraint order, whitespace and duplicates",
		Units: func(tier string) []core.Unit {
			var us []core.Unit
			for _, s := range eco.Schemes {
				us = append(us, c16StarUnit(s))
				for n := 1; n <= c16MaxN(tier); n++ {
					us = append(us, c16Unit(s, n, tier))
				}
			}
			return us
		},
		Replay: func(v *core.Violation) (bool, string) {
			g, e, pn := versCall(v.Inputs[0], v.Inputs[1])
			bg, be, _ := versCall(v.Inputs[2], v.Inputs[1])
			return pn || g != bg || e != be, fmt.Sprintf("variant: %v err=%v panic=%v; canonical: %v err=%v", g, e, pn, bg, be)
		},
		Finalize: func(r *core.Result, tier string) map[string]any {
			return map[string]any{
				"states":                        r.Counters["states"],
				"transitions":                   r.Counters["variants"],
				"traces_validated_against_impl": r.Counters["evaluations"],
				"evaluations":                   r.Counters["evaluations"],
				"distinct_nontrivial":           r.Counters["true_results"],
				"max_constraints":               c16MaxN(tier),
			}
		},
		Rule:        "base ranges = every spec-valid comparator shape of length 1..n (quick 3, thorough 6; at n=5 every 4th shape, at n=6 every 64th shape with all 720 permutations) instantiated from the increasing pools of C04 (pairwise non-equivalent versions); variants of each: ALL permutations of the constraints; space insertion at every subset of slots (before, inside a 2-character operator, between operator and version, inside the version, after) for <= 10 slots, else every single slot, every pair of slots and all slots; every non-empty subset of constraints duplicated (adjacent / at the far end / with different spacing); an empty constraint in every subset of gaps, blank constraints; 20 empty constraints behind / in front and 20 repeats of one constraint (more than 16 pieces); one combined variant; plus the match-all range '*' padded with 0-2 spaces on either side and surrounded by empty / blank constraints in every position. Every variant is evaluated on every probe and must give the same (result, error-ness) as the canonical spelling. states = base ranges, transitions = variants, distinct_nontrivial = comparisons whose canonical result is true.",
		Assumptions: []string{"only the space character is inserted (TAB/CR/LF are non-printable and belong to C17)", "n > 5 and sampled permutations beyond 6 constraints are not explored"},
	})
}
