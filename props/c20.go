package props

import (
	"fmt"
	"regexp"
	"sort"
	"strings"

	"verif/engine/core"
	"verif/engine/eco"
	"verif/engine/findings"
	"verif/engine/gen"
	"verif/engine/order"
	"verif/engine/univ"
)

var bigComponent = regexp.MustCompile(`[0-9]{5}`)

// conjunctiveRange: built only from conjunction (no OR alternative, no exclusion, no identity operator).
func conjunctiveRange(name, rs string) bool {
	if strings.Contains(rs, "||") || strings.Contains(rs, "!=") || strings.Contains(rs, "<>") || strings.Contains(rs, "===") {
		return false
	}
	if name == "composer" && strings.Contains(rs, "|") {
		return false
	}
	if name == "maven" || name == "nuget" {
		for _, sep := range []string{"),", "],"} {
			if strings.Contains(rs, sep) {
				return false // union of bracket intervals
			}
		}
	}
	return true
}

// c20Universe: a stride sub-universe of U_E plus, for each member, up to 3 Compare-equal
// spellings found anywhere in U_E; only elements outside C01's known-finding classes.
func c20Universe(name string, lvl int) ([]string, []eco.Ver) {
	e := eco.ByName(name)
	u := univ.Versions(e, 0)
	var clean []int
	for i, s := range u.Strs {
		if !findings.ElementInClass("C01", name, "transitivity", s) {
			clean = append(clean, i)
		}
	}
	n := 350
	if lvl > 0 {
		n = 900
	}
	base := stride(clean, n)
	in := map[int]bool{}
	for _, i := range base {
		in[i] = true
	}
	// always keep members with a component of 5 or more digits (magnitude-dependent bugs)
	for _, i := range clean {
		if !in[i] && bigComponent.MatchString(u.Strs[i]) && len(u.Strs[i]) < 24 {
			in[i] = true
			base = append(base, i)
		}
	}
	// one member per distinct build-metadata text (+b, +incompatible, ...), with its plain spelling
	{
		seen := map[string]bool{}
		for _, i := range clean {
			s := u.Strs[i]
			if k := strings.Index(s, "+"); k > 0 && !seen[s[k:]] && (len(seen) < 8 || s[k:] == "+incompatible") && len(s) < 30 {
				seen[s[k:]] = true
				if !in[i] {
					in[i] = true
					base = append(base, i)
				}
			}
		}
	}
	// neighbourhoods of the shorthand bases 0.2.3 and 1.2.3: releases around them with a
	// pre-release spelling in between (stability filters make a range non-convex exactly there)
	{
		want := map[string]bool{}
		for _, core := range []string{"0.2.3", "0.2.4", "0.2.6", "0.3.0", "1.2.3", "1.2.4", "1.2.6", "1.3.0", "2.0.0"} {
			want[core] = true
		}
		for _, m := range c03Markers[name] {
			if m.dir < 0 {
				want["0.2.5"+m.s] = true
				want["1.2.5"+m.s] = true
				want["1.9.0"+m.s] = true
				break
			}
		}
		for _, i := range clean {
			if want[u.Strs[i]] && !in[i] {
				in[i] = true
				base = append(base, i)
			}
		}
	}
	out := append([]int{}, base...)
	for _, i := range base {
		k := 0
		for _, j := range clean {
			if in[j] || k >= 3 {
				continue
			}
			if c, p := eco.SafeCompare(u.Vers[i], u.Vers[j]); p == nil && c == 0 {
				if c2, _ := eco.SafeCompare(u.Vers[j], u.Vers[i]); c2 == 0 {
					in[j] = true
					out = append(out, j)
					k++
				}
			}
		}
	}
	sort.Ints(out)
	var strs []string
	var vs []eco.Ver
	for _, i := range out {
		strs = append(strs, u.Strs[i])
		vs = append(vs, u.Vers[i])
	}
	return strs, vs
}

func c20Ranges(name string, lvl int, strs []string) []string {
	g := gen.Ranges(name, lvl)
	// comparators against universe members (incl. pre-release and variant spellings)
	syn := gen.SyntaxTable[name]
	var bounds []int
	for i, s := range strs {
		if boundOK(name, s) {
			bounds = append(bounds, i)
		}
	}
	sel := stride(bounds, 25)
	// one bound per distinct build-metadata text (+b, +incompatible, ...)
	seenBuild := map[string]bool{}
	for _, i := range bounds {
		if k := strings.Index(strs[i], "+"); k >= 0 && !seenBuild[strs[i][k:]] && (len(seenBuild) < 8 || strs[i][k:] == "+incompatible") {
			seenBuild[strs[i][k:]] = true
			sel = append(sel, i)
		}
	}
	seenPrefix := map[string]bool{}
	for _, i := range bounds {
		// one bound per distinct spelled prefix (v, =, release-, rel-, epochs ...)
		j := 0
		for j < len(strs[i]) && (strs[i][j] < '0' || strs[i][j] > '9') {
			j++
		}
		if pre := strs[i][:j]; pre != "" && !seenPrefix[pre] && len(seenPrefix) < 8 {
			seenPrefix[pre] = true
			sel = append(sel, i)
		}
	}
	for _, i := range bounds {
		if bigComponent.MatchString(strs[i]) || strs[i] == "1.0.1.10" || strs[i] == "1.0.10" || strs[i] == "1.0.2" {
			sel = append(sel, i)
		}
	}
	for _, i := range sel {
		for _, op := range syn.Ops {
			g = append(g, op+strs[i]+syn.SingleSuffix)
		}
		switch name {
		case "npm", "cargo", "composer", "conan":
			g = append(g, "^"+strs[i], "~"+strs[i])
		case "gem", "hex":
			g = append(g, "~>"+strs[i])
		case "pypi":
			g = append(g, "~="+strs[i])
		case "nuget", "maven":
			g = append(g, "["+strs[i]+"]", "["+strs[i]+",)", "(,"+strs[i]+")")
		}
	}
	return gen.Uniq(g)
}

func c20Unit(name string, lvl int) core.Unit {
	return core.Unit{Name: "C20/" + name, Weight: 10, Run: func(r *core.Result) {
		e := eco.ByName(name)
		strs, vs := c20Universe(name, lvl)
		n := len(strs)
		r.AddScope(name, "universe", int64(n))
		m := order.Build(vs)
		r.Add("compare_calls", m.Calls)
		// groups (alpm: pkgrel presence)
		groups := map[int][]int{}
		for i, s := range strs {
			g := 0
			if name == "alpm" {
				g = alpmGroup(s)
			}
			groups[g] = append(groups[g], i)
		}
		type grp struct {
			idx []int
			cls []int
			nc  int
		}
		var gs []grp
		for g := 0; g < 3; g++ {
			idx := groups[g]
			if len(idx) == 0 {
				continue
			}
			rank, off, wit := m.Rank(idx, 3)
			if off > 0 {
				// Compare is not a total preorder here (C01 reports that). The class-based
				// decision procedure needs one, so only the offending triples are judged, with
				// pairwise Compare: p <= q <= r, p and r inside a conjunctive range, q outside.
				c20Triples(r, e, name, strs, vs, wit, c20Ranges(name, lvl, strs))
				r.Incompletef("C20 %s: Compare is not a total preorder on the sub-universe (reported by C01); only the offending triples were checked for convexity", name)
				return
			}
			cls, nc := order.Classes(rank)
			gs = append(gs, grp{idx, cls, nc})
			r.Add("classes", int64(nc))
		}
		var ranges []eco.Rng
		var rstrs []string
		for _, rs := range c20Ranges(name, lvl, strs) {
			if rs == "" {
				continue
			}
			rg, err := eco.SafeParseRange(e, rs)
			if err != nil {
				continue
			}
			ranges = append(ranges, rg)
			rstrs = append(rstrs, rs)
		}
		r.AddScope(name, "ranges", int64(len(ranges)))
		r.Add("states", int64(len(ranges)))
		if len(ranges) < 10 {
			r.Internalf("C20 %s: only %d ranges accepted", name, len(ranges))
		}
		for ri, rg := range ranges {
			rs := rstrs[ri]
			if name == "pypi" && strings.Contains(rs, "===") {
				continue
			}
			conj := conjunctiveRange(name, rs)
			mem := make([]bool, n)
			any := false
			for i := range vs {
				c, p := eco.SafeContains(rg, vs[i])
				r.Add("evaluations", 1)
				if p != nil {
					r.Violate(core.Violation{Property: "C20", Scope: name, Kind: "panic", Inputs: []string{rs, strs[i]}, Expected: "no panic", Got: p.Error()})
				}
				mem[i] = c
				any = any || c
			}
			if any {
				r.Add("nontrivial", 1)
			}
			for _, g := range gs {
				// per class: first member's membership
				first := make([]int, g.nc)
				for k := range first {
					first[k] = -1
				}
				classMem := make([]bool, g.nc)
				bad := false
				for k, i := range g.idx {
					c := g.cls[k]
					if first[c] < 0 {
						first[c] = i
						classMem[c] = mem[i]
					} else if mem[i] != mem[first[c]] && !bad {
						bad = true
						a, b := strs[first[c]], strs[i]
						if len(b) < len(a) {
							a, b = b, a
						}
						r.Violate(core.Violation{Property: "C20", Scope: name, Kind: "equal-versions-differ", Inputs: []string{rs, a, b},
							Expected: "Compare-equal versions are both inside or both outside", Got: fmt.Sprintf("Contains(%q)=%v Contains(%q)=%v", strs[first[c]], mem[first[c]], strs[i], mem[i])})
					}
				}
				if !conj || bad {
					continue
				}
				// convexity: true classes must be contiguous
				lo, hi := -1, -1
				for c := 0; c < g.nc; c++ {
					if classMem[c] {
						if lo < 0 {
							lo = c
						}
						hi = c
					}
				}
				for c := lo; c >= 0 && c <= hi; c++ {
					if !classMem[c] {
						// find a true class below and above
						r.Violate(core.Violation{Property: "C20", Scope: name, Kind: "not-convex", Inputs: []string{rs, strs[first[lo]], strs[first[c]], strs[first[hi]]},
							Expected: "a <= b <= c with a and c inside implies b inside", Got: fmt.Sprintf("Contains(a)=true Contains(b)=false Contains(c)=true")})
						break
					}
				}
			}
		}
		if len(rstrs) > 0 {
			r.Sample("range", map[string]any{"eco": name, "range": rstrs[len(rstrs)/2], "versions": n})
		}
	}}
}

// c20Triples checks convexity on witness triples of an order that is not a total preorder.
func c20Triples(r *core.Result, e eco.Eco, name string, strs []string, vs []eco.Ver, wit []order.Triple, ranges []string) {
	syn := gen.SyntaxTable[name]
	for wi, w := range wit {
		if wi >= 3 {
			break
		}
		t := []int{w.A, w.B, w.C}
		var rs []string
		for _, i := range t {
			for _, op := range syn.Ops {
				rs = append(rs, op+strs[i]+syn.SingleSuffix)
			}
		}
		rs = append(rs, ranges...)
		for _, rstr := range rs {
			if rstr == "" || !conjunctiveRange(name, rstr) || (name == "pypi" && strings.Contains(rstr, "===")) {
				continue
			}
			rg, err := eco.SafeParseRange(e, rstr)
			if err != nil {
				continue
			}
			var mem [3]bool
			for k, i := range t {
				mem[k], _ = eco.SafeContains(rg, vs[i])
				r.Add("evaluations", 1)
			}
			for _, p := range permutations(3) {
				a, b, c := p[0], p[1], p[2]
				ab, _ := eco.SafeCompare(vs[t[a]], vs[t[b]])
				bc, _ := eco.SafeCompare(vs[t[b]], vs[t[c]])
				if ab <= 0 && bc <= 0 && mem[a] && !mem[b] && mem[c] {
					r.Violate(core.Violation{Property: "C20", Scope: name, Kind: "not-convex", Inputs: []string{rstr, strs[t[a]], strs[t[b]], strs[t[c]]},
						Expected: "a <= b <= c with a and c inside implies b inside", Got: "Contains(a)=true Contains(b)=false Contains(c)=true"})
				}
			}
		}
	}
}

func init() {
	core.Register(&core.Prop{
		ID:    "C20",
		Title: "Range membership depends only on a version's place in the order",
		Units: func(tier string) []core.Unit {
			var us []core.Unit
			for _, n := range gen.EcoNames {
				us = append(us, c20Unit(n, level(tier)))
			}
			return us
		},
		Replay: func(v *core.Violation) (bool, string) {
			e := eco.ByName(v.Scope)
			rg, err := eco.SafeParseRange(e, v.Inputs[0])
			if err != nil {
				return false, "range no longer accepted"
			}
			var ps []eco.Ver
			for _, s := range v.Inputs[1:] {
				x, err := eco.SafeParse(e, s)
				if err != nil {
					return false, "version no longer accepted"
				}
				ps = append(ps, x)
			}
			switch v.Kind {
			case "equal-versions-differ":
				c, _ := eco.SafeCompare(ps[0], ps[1])
				m0, _ := eco.SafeContains(rg, ps[0])
				m1, _ := eco.SafeContains(rg, ps[1])
				return c == 0 && m0 != m1, fmt.Sprintf("Compare=%d Contains=%v,%v", c, m0, m1)
			case "not-convex":
				ab, _ := eco.SafeCompare(ps[0], ps[1])
				bc, _ := eco.SafeCompare(ps[1], ps[2])
				m0, _ := eco.SafeContains(rg, ps[0])
				m1, _ := eco.SafeContains(rg, ps[1])
				m2, _ := eco.SafeContains(rg, ps[2])
				return ab <= 0 && bc <= 0 && m0 && !m1 && m2, fmt.Sprintf("Compare(a,b)=%d Compare(b,c)=%d Contains=%v,%v,%v", ab, bc, m0, m1, m2)
			}
			_, p := eco.SafeContains(rg, ps[0])
			return p != nil, "panic"
		},
		Finalize: func(r *core.Result, tier string) map[string]any {
			return map[string]any{
				"states":                        r.Counters["states"],
				"transitions":                   r.Counters["evaluations"] + r.Counters["compare_calls"],
				"traces_validated_against_impl": r.Counters["evaluations"],
				"evaluations":                   r.Counters["evaluations"],
				"distinct_nontrivial":           r.Counters["nontrivial"],
			}
		},
		Rule:        "per ecosystem: U' = a stride sub-universe of C01's universe (350 / 900 versions) plus up to 3 Compare-equal spellings of each member found anywhere in the universe; R = every accepted range of the full range grammar (comparators incl. aliases, AND/OR combinations, shorthands, brackets, wildcards) plus every comparator and shorthand applied to 25 universe members. For every range the membership vector over U' is computed with the real Contains; it must be constant on every Compare-equivalence class (decides ALL equal pairs), and for conjunctive ranges its true classes must be contiguous in rank order (decides ALL triples a<=b<=c). distinct_nontrivial = ranges containing at least one universe member.",
		Assumptions: []string{"elements in C01's known-intransitive classes are not in U'", "pypi '===' is skipped; alpm is checked separately within 'no pkgrel' and 'explicit pkgrel' versions (the property's exclusions)"},
	})
}
