package props

import (
	"fmt"
	"strings"

	"verif/engine/core"
	"verif/engine/eco"
	"verif/engine/gen"
)

// arities each ecosystem documents for plain dotted-numeric versions (DESIGN.md Appendix B).
var c03Arity = map[string][2]int{
	"alpine": {1, 5}, "alpm": {1, 5}, "apache": {3, 3}, "cargo": {3, 3}, "composer": {1, 4}, "conan": {1, 5},
	"cran": {2, 5}, "debian": {1, 5}, "gem": {1, 5}, "gentoo": {1, 5}, "github": {3, 3}, "golang": {3, 3},
	"hex": {2, 3}, "mattermost": {3, 3}, "maven": {1, 5}, "npm": {3, 3}, "nuget": {1, 4}, "pypi": {1, 5},
	"rpm": {1, 5}, "semver": {3, 3},
}

type marker struct {
	s   string
	dir int // -1 pre-release, +1 post-release / revision
}

func pre(ss ...string) []marker {
	var m []marker
	for _, s := range ss {
		m = append(m, marker{s, -1})
	}
	return m
}
func post(ss ...string) []marker {
	var m []marker
	for _, s := range ss {
		m = append(m, marker{s, 1})
	}
	return m
}
func cat(ms ...[]marker) []marker {
	var o []marker
	for _, m := range ms {
		o = append(o, m...)
	}
	return o
}

var semverPre = pre("-alpha", "-alpha.1", "-rc.1", "-0", "-rc1", "-beta", "-beta.2", "-1", "-x")

// Marker spellings per ecosystem; a spelling is only listed where the ecosystem's own
// documentation gives it that direction. Spellings the parser rejects are skipped at run time.
var c03Markers = map[string][]marker{
	"semver": semverPre, "cargo": semverPre, "npm": semverPre, "golang": semverPre, "hex": semverPre, "nuget": semverPre,
	"conan":  pre("-alpha", "-alpha.1", "-rc.1", "-0", "-rc1", "-beta"),
	"pypi":   cat(pre("a1", "b1", "rc1", ".a1", "alpha1", "beta1", "c1", ".dev1", "dev1", ".rc2", "a0", ".dev0"), post(".post1", "post1", ".rev1", ".r1", ".post0")),
	"debian": cat(pre("~rc1", "~", "~~", "~1", "~a"), post("-1", "+b1", "+dfsg", "-1+b1", ".1", "a", "+")),
	"rpm":    cat(pre("~rc1", "~", "~~", "~1"), post("-1", "^git1", "^1", "^", ".1", "a")),
	"maven":  cat(pre("-alpha", "-alpha-1", "-beta1", "-rc1", "-RC1", "-SNAPSHOT", "-M1", ".rc1", "-milestone-2", "-cr1", "-a1", "-b2", "-m3", ".Beta", "-snapshot"), post("-sp", "-sp1", "-1", "-SP2", ".sp")),
	"gem":    pre(".rc1", ".pre", "-rc1", ".alpha.1", "-alpha", ".a", ".beta2", ".rc", ".pre.1", "-a"),
	"alpine": cat(pre("_alpha", "_alpha1", "_beta", "_beta2", "_pre", "_pre1", "_rc", "_rc1"), post("_p", "_p1", "-r1", "_cvs", "_svn", "_git", "_hg", "_git20200101", "a")),
	"gentoo": cat(pre("_alpha", "_alpha1", "_beta", "_beta2", "_pre", "_pre1", "_rc", "_rc1"), post("_p", "_p1", "-r1", "a")),
	"alpm":   pre("rc1", "alpha", "beta", "a", "rc", "beta2", "pre1"),
	"apache": pre("-alpha", "-beta", "-RC1", "-M1", "-SNAPSHOT", "-dev", "-rc2", "-milestone1", "-alpha1", "-BETA2"),
	// composer: patch/pl/p are not claimed (Composer's documentation gives them no order against the plain release)
	"composer":   pre("-alpha", "-alpha1", "-alpha.1", "-beta", "-beta2", "-RC1", "-rc1", "a1", "b1", "RC1", "-dev", "alpha", "beta1", "-RC", "-a1", "-b"),
	"github":     pre("-alpha", "-beta", "-rc.1", ".rc1", "-dev", "-snapshot", "-rc1", "-alpha.1", "-beta2", "-RC1", ".beta", "-pre.1", "-preview", "-nightly", "-m3", "-a1", ".b2", "-canary.1"),
	"mattermost": pre("-rc1", "-rc", "-rc2", "-rc10"),
	"cran":       nil,
}

func tupleStr(t []string) string { return strings.Join(t, ".") }

func tuples(vals []string, k int) [][]string {
	out := [][]string{{}}
	for i := 0; i < k; i++ {
		var next [][]string
		for _, p := range out {
			for _, v := range vals {
				q := append(append([]string{}, p...), v)
				next = append(next, q)
			}
		}
		out = next
	}
	return out
}

func cmpNumStr(a, b string) int {
	// both are canonical decimal strings without leading zeros
	if len(a) != len(b) {
		if len(a) < len(b) {
			return -1
		}
		return 1
	}
	return strings.Compare(a, b)
}

func lexCmp(a, b []string) int {
	for i := range a {
		if c := cmpNumStr(a[i], b[i]); c != 0 {
			return c
		}
	}
	return 0
}

var c03B = []string{"0", "1", "2", "9", "10", "11", "99", "100", "999", "1000", "65535", "65536", "65537", "131072", "2147483647"}

func c03Vals(lvl, k int) []string {
	if lvl == 0 {
		switch {
		case k <= 2:
			return c03B
		case k == 3:
			return []string{"0", "1", "9", "10", "100", "1000", "65536", "2147483647"}
		default:
			return []string{"0", "1", "10"}
		}
	}
	switch {
	case k <= 3:
		return c03B
	case k == 4:
		return []string{"0", "1", "9", "10", "1000", "2147483647"}
	default:
		return []string{"0", "1", "9", "10", "2147483647"}
	}
}

func githubDateShaped(t []string) bool { return len(t) == 3 && len(t[0]) == 4 }

func c03Unit(name string, lvl int) core.Unit {
	return core.Unit{Name: name, Weight: 10, Run: func(r *core.Result) {
		e := eco.ByName(name)
		ar := c03Arity[name]
		prefix := ""
		for k := ar[0]; k <= ar[1]; k++ {
			ts := tuples(c03Vals(lvl, k), k)
			vs := make([]eco.Ver, len(ts))
			r.Add("states", int64(len(ts)))
			for i, t := range ts {
				s := prefix + tupleStr(t)
				v, err := eco.SafeParse(e, s)
				r.Add("parses", 1)
				if err != nil {
					r.Violate(core.Violation{Property: "C03", Scope: name, Kind: "tuple-rejected", Inputs: []string{s},
						Expected: fmt.Sprintf("plain %d-component version accepted", k), Got: "error: " + err.Error()})
					continue
				}
				vs[i] = v
			}
			r.Sample("tuple", map[string]any{"eco": name, "arity": k, "example": tupleStr(ts[len(ts)/2])})
			for i := range ts {
				if vs[i] == nil {
					continue
				}
				for j := range ts {
					if vs[j] == nil {
						continue
					}
					if name == "github" && githubDateShaped(ts[i]) != githubDateShaped(ts[j]) {
						continue
					}
					want := lexCmp(ts[i], ts[j])
					got, p := eco.SafeCompare(vs[i], vs[j])
					r.Add("evaluations", 1)
					if want != 0 {
						r.Add("nontrivial", 1)
					}
					if p != nil || signOf(got) != want || got != signOf(got) {
						r.Violate(core.Violation{Property: "C03", Scope: name, Kind: "tuple-order",
							Inputs: []string{prefix + tupleStr(ts[i]), prefix + tupleStr(ts[j])}, Expected: fmt.Sprintf("Compare=%d (integer tuples)", want), Got: fmt.Sprintf("Compare=%d panic=%v", got, p != nil)})
					}
				}
			}
			// dense block: one slot runs through 0..300 (thorough 0..1100 and 2^n-1, 2^n, 2^n+1 up to
			// 2^31) while the others stay at 7 - the deterministic stand-in for "random values"
			// (byte-wise keys, varints, digit-count shortcuts break between the boundary values)
			{
				hi := 300
				if lvl > 0 {
					hi = 1100
				}
				var vals []string
				for x := 0; x <= hi; x++ {
					vals = append(vals, fmt.Sprint(x))
				}
				if lvl > 0 {
					for n := 11; n <= 31; n++ {
						p := int64(1) << uint(n)
						for _, d := range []int64{-1, 0, 1} {
							if p+d <= 2147483647 {
								vals = append(vals, fmt.Sprint(p+d))
							}
						}
					}
				}
				for slot := 0; slot < k; slot++ {
					if k >= 4 && slot != 0 && slot != k-1 {
						continue
					}
					dt := make([][]string, 0, len(vals))
					dv := make([]eco.Ver, 0, len(vals))
					for _, x := range vals {
						t := make([]string, k)
						for i := range t {
							t[i] = "7"
						}
						t[slot] = x
						v, err := eco.SafeParse(e, prefix+tupleStr(t))
						r.Add("parses", 1)
						if err != nil {
							r.Violate(core.Violation{Property: "C03", Scope: name, Kind: "tuple-rejected", Inputs: []string{prefix + tupleStr(t)},
								Expected: fmt.Sprintf("plain %d-component version accepted", k), Got: "error: " + err.Error()})
							continue
						}
						dt, dv = append(dt, t), append(dv, v)
					}
					r.Add("states", int64(len(dt)))
					for i := range dt {
						for j := range dt {
							if name == "github" && githubDateShaped(dt[i]) != githubDateShaped(dt[j]) {
								continue
							}
							want := lexCmp(dt[i], dt[j])
							got, p := eco.SafeCompare(dv[i], dv[j])
							r.Add("evaluations", 1)
							if want != 0 {
								r.Add("nontrivial", 1)
							}
							if p != nil || got != want {
								r.Violate(core.Violation{Property: "C03", Scope: name, Kind: "tuple-order",
									Inputs: []string{prefix + tupleStr(dt[i]), prefix + tupleStr(dt[j])}, Expected: fmt.Sprintf("Compare=%d (integer tuples)", want), Got: fmt.Sprintf("Compare=%d panic=%v", got, p != nil)})
							}
						}
					}
				}
			}
			// github: calendar-shaped tuples incl. day numbers that do not exist in the month
			// (31 February): still plain integer tuples, compared among themselves
			if name == "github" && k == 3 {
				var cal [][]string
				var cv []eco.Ver
				for _, y := range []string{"1000", "2023", "2024", "9999"} {
					for _, m := range []string{"1", "2", "3", "4", "9", "11", "12"} {
						for _, d := range []string{"1", "2", "27", "28", "29", "30", "31"} {
							t := []string{y, m, d}
							v, err := eco.SafeParse(e, tupleStr(t))
							r.Add("parses", 1)
							if err != nil {
								r.AddScope(name, "calendar_tuple_rejected", 1)
								continue
							}
							cal, cv = append(cal, t), append(cv, v)
						}
					}
				}
				r.Add("states", int64(len(cal)))
				for i := range cal {
					for j := range cal {
						want := lexCmp(cal[i], cal[j])
						got, p := eco.SafeCompare(cv[i], cv[j])
						r.Add("evaluations", 1)
						if want != 0 {
							r.Add("nontrivial", 1)
						}
						if p != nil || got != want {
							r.Violate(core.Violation{Property: "C03", Scope: name, Kind: "tuple-order",
								Inputs: []string{tupleStr(cal[i]), tupleStr(cal[j])}, Expected: fmt.Sprintf("Compare=%d (integer tuples)", want), Got: fmt.Sprintf("Compare=%d panic=%v", got, p != nil)})
						}
					}
				}
			}
			// markers (numbered markers also with numbers at the packed-key boundaries)
			ms := c03Markers[name]
			for _, m := range c03Markers[name] {
				j := len(m.s)
				for j > 0 && m.s[j-1] >= '0' && m.s[j-1] <= '9' {
					j--
				}
				if j < len(m.s) && j > 0 {
					for _, big := range []string{"65536", "1048576", "20240101", "4294967296"} {
						ms = append(ms, marker{m.s[:j] + big, m.dir})
					}
				}
			}
			mvals := []string{"0", "1", "9", "10"}
			if lvl == 0 && k >= 4 {
				mvals = []string{"0", "1"}
			}
			for _, t := range tuples(mvals, k) {
				if name == "github" && githubDateShaped(t) {
					continue
				}
				plainS := prefix + tupleStr(t)
				plain, err := eco.SafeParse(e, plainS)
				if err != nil {
					continue
				}
				for _, m := range ms {
					ms := plainS + m.s
					mv, err := eco.SafeParse(e, ms)
					r.Add("parses", 1)
					r.Add("states", 1)
					if err != nil {
						r.AddScope(name, "marker_spelling_rejected:"+m.s, 1)
						continue
					}
					got, p := eco.SafeCompare(mv, plain)
					got2, p2 := eco.SafeCompare(plain, mv)
					r.Add("evaluations", 2)
					r.Add("nontrivial", 2)
					r.SetAdd("accepted_markers", name+":"+m.s)
					if p != nil || p2 != nil || got != m.dir || got2 != -m.dir {
						kind := "pre-marker"
						if m.dir > 0 {
							kind = "post-marker"
						}
						r.Violate(core.Violation{Property: "C03", Scope: name, Kind: kind,
							Inputs: []string{ms, plainS, m.s}, Expected: fmt.Sprintf("Compare(marked, plain)=%d and the reverse %d", m.dir, -m.dir), Got: fmt.Sprintf("Compare(marked,plain)=%d Compare(plain,marked)=%d", got, got2)})
					}
				}
			}
		}
	}}
}

func init() {
	core.Register(&core.Prop{
		ID:    "C03",
		Title: "Numbers order numerically; pre-release < release < post-release",
		Units: func(tier string) []core.Unit {
			var us []core.Unit
			for _, n := range gen.EcoNames {
				us = append(us, c03Unit(n, level(tier)))
			}
			return us
		},
		Replay: func(v *core.Violation) (bool, string) {
			e := eco.ByName(v.Scope)
			switch v.Kind {
			case "tuple-rejected":
				_, err := eco.SafeParse(e, v.Inputs[0])
				if err != nil {
					return true, "rejected: " + err.Error()
				}
				return false, "accepted"
			case "tuple-order":
				a, e1 := eco.SafeParse(e, v.Inputs[0])
				b, e2 := eco.SafeParse(e, v.Inputs[1])
				if e1 != nil || e2 != nil {
					return true, "tuple rejected"
				}
				want := lexCmp(strings.Split(v.Inputs[0], "."), strings.Split(v.Inputs[1], "."))
				got, p := eco.SafeCompare(a, b)
				return p != nil || got != want, fmt.Sprintf("Compare=%d want %d", got, want)
			default:
				dir := -1
				if v.Kind == "post-marker" {
					dir = 1
				}
				a, e1 := eco.SafeParse(e, v.Inputs[0])
				b, e2 := eco.SafeParse(e, v.Inputs[1])
				if e1 != nil || e2 != nil {
					return false, "spelling no longer accepted"
				}
				got, p := eco.SafeCompare(a, b)
				got2, p2 := eco.SafeCompare(b, a)
				return p != nil || p2 != nil || got != dir || got2 != -dir, fmt.Sprintf("Compare(marked,plain)=%d Compare(plain,marked)=%d want %d", got, got2, dir)
			}
		},
		Finalize: func(r *core.Result, tier string) map[string]any {
			return map[string]any{
				"states":                        r.Counters["states"],
				"transitions":                   r.Counters["evaluations"] + r.Counters["parses"],
				"traces_validated_against_impl": r.Counters["evaluations"],
				"evaluations":                   r.Counters["evaluations"],
				"distinct_nontrivial":           r.Counters["nontrivial"],
			}
		},
		Rule:        "per ecosystem and documented arity k: every k-tuple over the boundary set (full set for small k, a stated subset for larger k) and every tuple of the dense block (one slot running through 0..300 / 0..1100 + powers of two, others fixed at 7) must parse, and every ordered pair of tuples of the same arity must compare as the integer tuples; every (tuple over {0,1,9,10}, marker spelling) the parser accepts must compare below (pre) / above (post) its unmarked tuple, in both argument orders. distinct_nontrivial = pairs of different tuples + all marker comparisons.",
		Assumptions: []string{"'plus random values' of the quantifier is replaced by the deterministic boundary set and by a dense block: each slot in turn runs through 0..300 (thorough 0..1100 and every 2^n-1, 2^n, 2^n+1 for n = 11..31) with the other slots fixed", "marker direction tables are written from each ecosystem's documentation; spellings the parser rejects are skipped (counted in per_scope)", "github date-shaped tuples (4-digit first component) are compared only among themselves; a calendar block (4 years x 7 months x days 1,2,27-31, incl. days the month does not have) is added for them"},
	})
}
