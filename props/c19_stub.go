//go:build !verif_instr

package props

import "verif/engine/core"

func init() {
	core.Register(&core.Prop{
		ID:    "C19",
		Title: "All operations are pure and safe for concurrent use",
		Units: func(tier string) []core.Unit {
			return []core.Unit{{Name: "C19/needs-instrumented-build", Weight: 1, Run: func(r *core.Result) {
				r.Internalf("C19 needs the instrumented build (./check.sh C19 builds and runs .work/vcheck-instr)")
			}}}
		},
		Rule: "see props/c19_instr.go",
	})
}
