package props

import (
	"fmt"
	"strings"

	"verif/engine/core"
	"verif/engine/eco"
	"verif/engine/gen"
)

// refSpec describes a "Compare agrees with the reference order" property (C08-C14).
type refSpec struct {
	Prop, Eco string
	// Candidates returns the candidate strings for a level (before filtering).
	Candidates func(lvl int) []string
	// Valid is the reference-side domain predicate (the property's "restricted to ...").
	Valid func(s string) bool
	// PairOK optionally restricts pairs (e.g. alpine: equal component count).
	PairOK func(a, b string) bool
	// Cmp is the reference order; tag names the deciding rule.
	Cmp    func(a, b string) (int, string)
	Blocks int
}

var refUniverseCache = map[string][]string{}

func (s *refSpec) universe(lvl int) ([]string, []eco.Ver, int) {
	e := eco.ByName(s.Eco)
	cands := gen.Uniq(s.Candidates(lvl))
	var strs []string
	var vers []eco.Ver
	for _, c := range cands {
		if !s.Valid(c) {
			continue
		}
		v, err := eco.SafeParse(e, c)
		if err != nil {
			continue
		}
		// use the value of a second, independent parse (memoising parsers)
		if v2, err2 := eco.SafeParse(e, c); err2 == nil {
			v = v2
		}
		strs = append(strs, c)
		vers = append(vers, v)
	}
	return strs, vers, len(cands)
}

func (s *refSpec) units(tier string) []core.Unit {
	lvl := level(tier)
	nb := s.Blocks
	if nb == 0 {
		nb = 8
	}
	var us []core.Unit
	for b := 0; b < nb; b++ {
		b := b
		us = append(us, core.Unit{Name: fmt.Sprintf("%s/%s/block%d", s.Prop, s.Eco, b), Weight: 10, Run: func(r *core.Result) {
			strs, vers, ncand := s.universe(lvl)
			n := len(strs)
			if b == 0 {
				r.Add("states", int64(ncand))
				r.AddScope(s.Eco, "universe", int64(n))
				r.AddScope(s.Eco, "candidates", int64(ncand))
				if n < 30 {
					r.Internalf("%s %s: universe too small (%d)", s.Prop, s.Eco, n)
				}
			}
			for i := b; i < n; i += nb {
				for j := 0; j < n; j++ {
					if s.PairOK != nil && !s.PairOK(strs[i], strs[j]) {
						continue
					}
					want, tag := s.Cmp(strs[i], strs[j])
					got, p := eco.SafeCompare(vers[i], vers[j])
					r.Add("evaluations", 1)
					if want != 0 {
						r.Add("nontrivial", 1)
					}
					r.SetAdd("rules:"+s.Eco, tag)
					if p != nil || got != want {
						g := fmt.Sprintf("Compare=%d", got)
						if p != nil {
							g = p.Error()
						}
						r.Violate(core.Violation{Property: s.Prop, Scope: s.Eco, Kind: "order",
							Inputs: []string{strs[i], strs[j]}, Expected: fmt.Sprintf("reference=%d", want), Got: g, Note: tag})
					}
				}
				if i == b && n > 3 {
					w, tag := s.Cmp(strs[n/3], strs[2*n/3])
					r.Sample("pair", map[string]any{"eco": s.Eco, "a": strs[n/3], "b": strs[2*n/3], "reference": w, "rule": tag})
				}
			}
		}})
	}
	return us
}

// slot2Units (thorough): for every typical shape b of the ecosystem, every TWO-slot substitution
// of b is compared (both argument orders) with b and with every one-slot substitution of b.
// Interactions between two fields (packed keys, prefix-skipping fast paths) live here; the
// all-pairs universe cannot hold the ~14 000 two-slot strings per shape.
func (s *refSpec) slot2Units() []core.Unit {
	bases := append([]string{}, gen.RangeBounds[s.Eco]...)
	if cb, ok := gen.CaseBounds[s.Eco]; ok {
		bases = append(bases, cb)
	}
	var us []core.Unit
	for _, b := range bases {
		b := b
		us = append(us, core.Unit{Name: fmt.Sprintf("%s/%s/slot2/%s", s.Prop, s.Eco, b), Weight: 5, Run: func(r *core.Result) {
			e := eco.ByName(s.Eco)
			type pv struct {
				s string
				v eco.Ver
			}
			parse := func(cands []string) []pv {
				var out []pv
				for _, c := range gen.Uniq(cands) {
					if !s.Valid(c) {
						continue
					}
					if v, err := eco.SafeParse(e, c); err == nil {
						out = append(out, pv{c, v})
					}
				}
				return out
			}
			one := gen.SlotMutations(b)
			l1 := parse(append([]string{b}, one...))
			var two []string
			for _, m := range one {
				two = append(two, gen.SlotMutations(m)...)
			}
			l2 := parse(two)
			r.Add("states", int64(len(l2)))
			r.AddScope(s.Eco, "slot2_strings", int64(len(l2)))
			for _, x := range l2 {
				for _, y := range l1 {
					if s.PairOK != nil && !s.PairOK(x.s, y.s) {
						continue
					}
					for dir := 0; dir < 2; dir++ {
						a, c := x, y
						if dir == 1 {
							a, c = y, x
						}
						want, tag := s.Cmp(a.s, c.s)
						got, p := eco.SafeCompare(a.v, c.v)
						r.Add("evaluations", 1)
						if want != 0 {
							r.Add("nontrivial", 1)
						}
						if p != nil || got != want {
							g := fmt.Sprintf("Compare=%d", got)
							if p != nil {
								g = p.Error()
							}
							r.Violate(core.Violation{Property: s.Prop, Scope: s.Eco, Kind: "order",
								Inputs: []string{a.s, c.s}, Expected: fmt.Sprintf("reference=%d", want), Got: g, Note: tag})
						}
					}
				}
			}
		}})
	}
	return us
}

func (s *refSpec) replay(v *core.Violation) (bool, string) {
	e := eco.ByName(v.Scope)
	a, e1 := eco.SafeParse(e, v.Inputs[0])
	b, e2 := eco.SafeParse(e, v.Inputs[1])
	if e1 != nil || e2 != nil {
		return false, "input no longer accepted"
	}
	want, tag := s.Cmp(v.Inputs[0], v.Inputs[1])
	got, p := eco.SafeCompare(a, b)
	if p != nil {
		return true, p.Error()
	}
	return got != want, fmt.Sprintf("Compare=%d reference=%d (%s)", got, want, tag)
}

func refFinalize(r *core.Result, tier string) map[string]any {
	return map[string]any{
		"states":                        r.Counters["states"],
		"transitions":                   r.Counters["gen_transitions"] + r.Counters["evaluations"],
		"traces_validated_against_impl": r.Counters["evaluations"],
		"evaluations":                   r.Counters["evaluations"],
		"distinct_nontrivial":           r.Counters["nontrivial"],
	}
}

func registerRef(id, title string, specs []*refSpec, rule string, assumptions, trusted []string, conf ...string) {
	bySc := map[string]*refSpec{}
	for _, s := range specs {
		bySc[s.Eco] = s
	}
	core.Register(&core.Prop{
		ID: id, Title: title,
		Units: func(tier string) []core.Unit {
			var us []core.Unit
			for _, s := range specs {
				us = append(us, s.units(tier)...)
				if tier == "thorough" {
					us = append(us, s.slot2Units()...)
				}
			}
			return us
		},
		Replay: func(v *core.Violation) (bool, string) {
			s := bySc[v.Scope]
			if s == nil {
				return false, "unknown scope"
			}
			return s.replay(v)
		},
		Finalize:        refFinalize,
		Rule:            rule + " All candidate sets also contain the magnitude family (2^16, 2^17, 2^31, 2^32, 2^53 neighbours, an 8-digit date) and the leading-zero family in every numeric slot, and the one-slot substitution closure of the ecosystem's typical shapes: each digit run replaced by each of 22 numeric tokens, each letter run by each of 32 words, each separator by each of 9 separators, plus appended tokens. Thorough adds, per typical shape, every two-slot substitution (about 14 000 strings per shape) compared in both orders with the shape and all its one-slot substitutions.",
		Assumptions:     assumptions,
		Trusted:         trusted,
		Conformance:     firstOr(conf, ""),
		ConformanceArgs: map[string]string{"quick": "300", "thorough": "700"},
	})
}

func hasAny(s string, subs ...string) bool {
	for _, x := range subs {
		if strings.Contains(s, x) {
			return true
		}
	}
	return false
}

func firstOr(a []string, d string) string {
	if len(a) > 0 {
		return a[0]
	}
	return d
}
