//go:build verif_instr

package props

import (
	"fmt"
	"os"
	"os/exec"
	"path/filepath"
	"sort"
	"strconv"
	"strings"

	"github.com/alowayed/go-univers/pkg/ecosystem/alpine"
	"github.com/alowayed/go-univers/pkg/ecosystem/alpm"
	"github.com/alowayed/go-univers/pkg/ecosystem/apache"
	"github.com/alowayed/go-univers/pkg/ecosystem/cargo"
	"github.com/alowayed/go-univers/pkg/ecosystem/composer"
	"github.com/alowayed/go-univers/pkg/ecosystem/conan"
	"github.com/alowayed/go-univers/pkg/ecosystem/cran"
	"github.com/alowayed/go-univers/pkg/ecosystem/debian"
	"github.com/alowayed/go-univers/pkg/ecosystem/gem"
	"github.com/alowayed/go-univers/pkg/ecosystem/gentoo"
	"github.com/alowayed/go-univers/pkg/ecosystem/github"
	"github.com/alowayed/go-univers/pkg/ecosystem/golang"
	"github.com/alowayed/go-univers/pkg/ecosystem/hex"
	"github.com/alowayed/go-univers/pkg/ecosystem/mattermost"
	"github.com/alowayed/go-univers/pkg/ecosystem/maven"
	"github.com/alowayed/go-univers/pkg/ecosystem/npm"
	"github.com/alowayed/go-univers/pkg/ecosystem/nuget"
	"github.com/alowayed/go-univers/pkg/ecosystem/pypi"
	"github.com/alowayed/go-univers/pkg/ecosystem/rpm"
	"github.com/alowayed/go-univers/pkg/ecosystem/semver"
	"github.com/alowayed/go-univers/pkg/spec/vers"

	"verif/engine/core"
	"verif/engine/scen"
	"verif/engine/sched"
	"verif/engine/snap"
)

// package-level variables of every package (generated accessors, injected by overlay)
var c19Globals = map[string]func() map[string]any{
	"alpine": alpine.VerifGlobals, "alpm": alpm.VerifGlobals, "apache": apache.VerifGlobals, "cargo": cargo.VerifGlobals,
	"composer": composer.VerifGlobals, "conan": conan.VerifGlobals, "cran": cran.VerifGlobals, "debian": debian.VerifGlobals,
	"gem": gem.VerifGlobals, "gentoo": gentoo.VerifGlobals, "github": github.VerifGlobals, "golang": golang.VerifGlobals,
	"hex": hex.VerifGlobals, "mattermost": mattermost.VerifGlobals, "maven": maven.VerifGlobals, "npm": npm.VerifGlobals,
	"nuget": nuget.VerifGlobals, "pypi": pypi.VerifGlobals, "rpm": rpm.VerifGlobals, "semver": semver.VerifGlobals,
	"vers": vers.VerifGlobals,
}

func c19GlobalRoots(scope string) []any {
	var names []string
	if scope == "vers" {
		for n := range c19Globals {
			names = append(names, n)
		}
	} else {
		names = []string{scope}
	}
	sort.Strings(names)
	var out []any
	for _, n := range names {
		m := c19Globals[n]()
		var ks []string
		for k := range m {
			ks = append(ks, k)
		}
		sort.Strings(ks)
		for _, k := range ks {
			out = append(out, m[k])
		}
	}
	return out
}

// C19Op runs one operation of a scope in this (fresh) process and prints its result; used to
// obtain history-free baselines.
func C19Op(scope string, idx int) string {
	sc, ok := scen.ByScope(scope)
	if !ok || idx < 0 || idx >= len(sc.Ops) {
		return "<no such op>"
	}
	return scen.SafeRun(sc.Ops[idx], sc.Setup())
}

func c19Baselines(r *core.Result, sc scen.Scenario) []string {
	self, _ := os.Executable()
	out := make([]string, len(sc.Ops))
	for i := range sc.Ops {
		o, err := exec.Command(self, "-c19op", sc.Scope+":"+strconv.Itoa(i)).Output()
		if err != nil {
			r.Internalf("C19 baseline process for %s op %d failed: %v", sc.Scope, i, err)
			return nil
		}
		out[i] = strings.TrimSuffix(string(o), "\n")
		r.Add("baseline_processes", 1)
	}
	return out
}

func c19Depth(tier string) int {
	if tier == "thorough" {
		return 4
	}
	return 2
}

func c19HistUnit(scope, tier string) core.Unit {
	return core.Unit{Name: "C19/hist/" + scope, Weight: 5, Run: func(r *core.Result) {
		sc, _ := scen.ByScope(scope)
		base := c19Baselines(r, sc)
		if base == nil {
			return
		}
		depth := c19Depth(tier)
		states := map[uint64]bool{}
		n := len(sc.Ops)
		seq := make([]int, 0, depth)
		var run func()
		run = func() {
			if len(seq) > 0 {
				// execute this sequence on fresh shared values
				sh := sc.Setup()
				vroots := sh.Roots()
				groots := c19GlobalRoots(scope)
				r.Add("sequences", 1)
				for k, oi := range seq {
					hv0 := snap.Hash(true, vroots...)
					hg0 := snap.Hash(true, groots...)
					out := scen.SafeRun(sc.Ops[oi], sh)
					hv1 := snap.Hash(true, vroots...)
					hg1 := snap.Hash(true, groots...)
					r.Add("transitions", 1)
					states[snap.Hash(false, vroots...)^(snap.Hash(false, groots...)*31)] = true
					names := func() []string {
						var l []string
						for _, x := range seq[:k+1] {
							l = append(l, sc.Ops[x].Name)
						}
						return l
					}
					if out != base[oi] {
						r.Violate(core.Violation{Property: "C19", Scope: scope, Kind: "history-dependent-result", Inputs: names(),
							Expected: fmt.Sprintf("%q (result of the last operation alone in a fresh process)", base[oi]), Got: fmt.Sprintf("%q after this sequence", out)})
					}
					if hv1 != hv0 {
						r.Violate(core.Violation{Property: "C19", Scope: scope, Kind: "shared-value-modified", Inputs: names(),
							Expected: "no call modifies a shared ecosystem / version / range value", Got: "memory reachable from the shared values changed during the last operation"})
					}
					if hg1 != hg0 {
						r.Add("global_state_changes", 1)
						r.SetAdd("ops-changing-package-state", scope+": "+sc.Ops[oi].Name)
					}
				}
			}
			if len(seq) == depth {
				return
			}
			for i := 0; i < n; i++ {
				// at most one heavy operation per sequence; sequences of length 4 only over the
				// first 16 operations of the menu (the menus have grown to 40-50 operations and
				// every sequence is executed from fresh values: n^4 of them is out of reach)
				if sc.Ops[i].Heavy {
					dup := false
					for _, x := range seq {
						if sc.Ops[x].Heavy {
							dup = true
						}
					}
					if dup {
						continue
					}
				}
				if len(seq) == 3 {
					ok := i < 16
					for _, x := range seq {
						if x >= 16 {
							ok = false
						}
					}
					if !ok {
						continue
					}
				}
				seq = append(seq, i)
				run()
				seq = seq[:len(seq)-1]
			}
		}
		run()
		r.Add("states", int64(len(states)))
		r.AddScope(scope, "distinct_states", int64(len(states)))
		r.AddScope(scope, "menu", int64(n))
		for _, b := range base {
			r.SetAdd("results:"+scope, b)
		}
		r.Sample("history", map[string]any{"scope": scope, "sequence": []string{sc.Ops[0].Name, sc.Ops[n-1].Name}, "baseline": base[n-1]})
	}}
}

// explore runs the deviation-bounded exploration of one 2- or 3-thread scenario.
type c19Exploration struct {
	executions, points int64
	maxPre             int
	outcomes           map[string]bool
	bad                *sched.Execution
	badWhy             string
	unschedulable      bool
}

func c19Explore(bodies func() []func() string, want []string, bound int) *c19Exploration {
	ex := &c19Exploration{outcomes: map[string]bool{}, maxPre: bound}
	var explore func(prefix []int)
	explore = func(prefix []int) {
		if ex.bad != nil || ex.unschedulable {
			return
		}
		x := sched.Run(bodies(), func(d int, enabled []int, running int) int {
			if d < len(prefix) {
				return prefix[d]
			}
			return 0 // canonical: keep running the current thread, else the lowest id
		})
		ex.executions++
		if x.Unschedulable {
			ex.unschedulable = true
			return
		}
		ex.outcomes[strings.Join(x.Results, " | ")] = true
		if x.Deadlock {
			ex.bad, ex.badWhy = x, "deadlock"
			return
		}
		for i, res := range x.Results {
			if res != want[i] {
				ex.bad, ex.badWhy = x, fmt.Sprintf("thread %d returned %q, sequentially %q", i, res, want[i])
				return
			}
		}
		// preemptions used before each decision
		pre := make([]int, len(x.Choices)+1)
		for i := range x.Choices {
			pre[i+1] = pre[i]
			if i > 0 && x.Choices[i] != x.Choices[i-1] {
				// switching away from a thread that was still enabled is a preemption
				for _, e := range x.Enabled[i] {
					if e == x.Choices[i-1] {
						pre[i+1]++
						break
					}
				}
			}
		}
		if len(prefix) == 0 {
			ex.points += int64(len(x.Choices))
		}
		for i := len(prefix); i < len(x.Choices); i++ {
			en := x.Enabled[i]
			for alt := 1; alt < len(en); alt++ {
				cost := pre[i]
				if i > 0 {
					for _, e := range en {
						if e == x.Choices[i-1] && en[alt] != e {
							cost++
							break
						}
					}
				}
				if cost > bound {
					continue
				}
				np := make([]int, i+1)
				for k := 0; k < i; k++ {
					// index of the chosen thread in that decision's enabled list
					for idx, e := range x.Enabled[k] {
						if e == x.Choices[k] {
							np[k] = idx
						}
					}
				}
				np[i] = alt
				explore(np)
			}
		}
	}
	explore(nil)
	return ex
}

func c19SchedUnit(scope, tier string, part, parts int) core.Unit {
	w := 20
	if scope == "vers" {
		w = 40
	}
	return core.Unit{Name: fmt.Sprintf("C19/sched/%s/%d", scope, part), Weight: w, Run: func(r *core.Result) {
		sc, _ := scen.ByScope(scope)
		nOps := len(sc.Ops)
		limit := 6
		bound := 1
		if tier == "thorough" {
			limit = nOps
		}
		if limit > nOps {
			limit = nOps
		}
		type pair struct{ i, j int }
		var pairs []pair
		for i := 0; i < limit; i++ {
			for j := i; j < limit; j++ {
				pairs = append(pairs, pair{i, j})
			}
		}
		// always include the operations beyond the limit (ecosystem-specific spellings, collision
		// pairs) against each other; a shared value's first use racing with itself matters most
		for i := limit; i < nOps; i++ {
			for j := i; j < nOps; j++ {
				if tier != "thorough" && j > i+2 {
					break // quick: each extra operation with itself and its two neighbours in the menu
				}
				pairs = append(pairs, pair{i, j})
			}
		}
		{
			kept := pairs[:0]
			for _, p := range pairs {
				if !sc.Ops[p.i].Heavy && !sc.Ops[p.j].Heavy {
					kept = append(kept, p)
				}
			}
			pairs = kept
		}
		if scope == "vers" && tier != "thorough" {
			// VERS calls are ~10x longer: the first three calls against each other, and every pair of
			// calls that evaluate the same constraint text under two different schemes
			pairs = []pair{{0, 0}, {0, 1}, {0, 2}, {1, 2}, {2, 3}, {4, 5}, {6, 7}, {8, 9}, {5, 7}, {10, 12}}
		}
		for pi, p := range pairs {
			if pi%parts != part {
				continue
			}
			// sequential reference on fresh shared values
			sh0 := sc.Setup()
			want := []string{scen.SafeRun(sc.Ops[p.i], sh0), scen.SafeRun(sc.Ops[p.j], sh0)}
			r.Add("scenarios", 1)
			// one instrumented execution with a snapshot after every step: which steps write?
			sh := sc.Setup()
			roots := append(sh.Roots(), c19GlobalRoots(scope)...)
			last := snap.Hash(true, roots...)
			writes := 0
			sched.AfterStep = func(int, int) {
				h := snap.Hash(true, roots...)
				if h != last {
					writes++
					last = h
				}
			}
			x := sched.Run([]func() string{
				func() string { return scen.SafeRun(sc.Ops[p.i], sh) },
				func() string { return scen.SafeRun(sc.Ops[p.j], sh) },
			}, func(int, []int, int) int { return 0 })
			sched.AfterStep = nil
			r.Add("executions", 1)
			r.Add("scheduling_points", int64(x.Steps))
			r.Add("dependent_steps", int64(writes))
			if x.Unschedulable {
				r.Incompletef("C19 %s %s || %s: a thread blocked on a real synchronisation primitive; interleavings not explored (history search and -race pass still apply)", scope, sc.Ops[p.i].Name, sc.Ops[p.j].Name)
				continue
			}
			if writes > 0 {
				r.SetAdd("scenarios-with-writes", scope+": "+sc.Ops[p.i].Name+" || "+sc.Ops[p.j].Name)
			}
			// brute force with a preemption bound, on shared values created once per execution
			ex := c19Explore(func() []func() string {
				s := sc.Setup()
				return []func() string{
					func() string { return scen.SafeRun(sc.Ops[p.i], s) },
					func() string { return scen.SafeRun(sc.Ops[p.j], s) },
				}
			}, want, func() int {
				// thorough: two preemptions for the pairs among the first three operations and
				// among the operations beyond the first six (ecosystem-specific spellings, collisions)
				if tier == "thorough" && scope != "vers" && ((p.i < 3 && p.j < 3) || (p.i >= 6 && p.j >= 6 && p.j-p.i <= 1)) {
					return 2
				}
				return bound
			}())
			r.Add("executions", ex.executions)
			r.Add("transitions", ex.executions*int64(x.Steps))
			for o := range ex.outcomes {
				r.SetAdd("outcomes:"+scope, o)
			}
			if ex.unschedulable {
				r.Incompletef("C19 %s %s || %s: real blocking synchronisation; interleavings not explored", scope, sc.Ops[p.i].Name, sc.Ops[p.j].Name)
				continue
			}
			if ex.bad != nil {
				sch := make([]string, len(ex.bad.Choices))
				for k, c := range ex.bad.Choices {
					sch[k] = strconv.Itoa(c)
				}
				r.Violate(core.Violation{Property: "C19", Scope: scope, Kind: "interleaving", Inputs: []string{strconv.Itoa(p.i), strconv.Itoa(p.j), sc.Ops[p.i].Name, sc.Ops[p.j].Name, strings.Join(sch, "")},
					Expected: fmt.Sprintf("concurrent results equal the sequential ones %q, no deadlock", want), Got: ex.badWhy, Note: "schedule=" + strings.Join(sch, "")})
			}
		}
		// three threads (thorough): the first three operations together, preemption bound 1
		if tier == "thorough" && nOps >= 5 && part == 0 && scope != "vers" {
			for a := 0; a < 3; a++ {
				i, j, k := a, a+1, a+2
				sh0 := sc.Setup()
				want := []string{scen.SafeRun(sc.Ops[i], sh0), scen.SafeRun(sc.Ops[j], sh0), scen.SafeRun(sc.Ops[k], sh0)}
				ex := c19Explore(func() []func() string {
					s := sc.Setup()
					return []func() string{
						func() string { return scen.SafeRun(sc.Ops[i], s) },
						func() string { return scen.SafeRun(sc.Ops[j], s) },
						func() string { return scen.SafeRun(sc.Ops[k], s) },
					}
				}, want, 1)
				r.Add("scenarios", 1)
				r.Add("executions", ex.executions)
				if ex.bad != nil {
					r.Violate(core.Violation{Property: "C19", Scope: scope, Kind: "interleaving-3", Inputs: []string{sc.Ops[i].Name, sc.Ops[j].Name, sc.Ops[k].Name}, Expected: "concurrent results equal the sequential ones", Got: ex.badWhy})
				}
			}
		}
		r.Sample("scenario", map[string]any{"scope": scope, "threads": []string{sc.Ops[0].Name, sc.Ops[nOps-1].Name}, "preemption_bound": bound})
	}}
}

func c19Bin() string {
	if b := os.Getenv("VERIF_BIN"); b != "" {
		return b
	}
	return filepath.Join(c19Root(), ".work")
}

func c19Root() string {
	if r := os.Getenv("VERIF_ROOT"); r != "" {
		return r
	}
	return "/verif"
}

func init() {
	core.Register(&core.Prop{
		ID:    "C19",
		Title: "All operations are pure and safe for concurrent use",
		Units: func(tier string) []core.Unit {
			var us []core.Unit
			for _, sc := range scen.All() {
				us = append(us, c19HistUnit(sc.Scope, tier))
				parts := 2
				if sc.Scope == "vers" {
					parts = 10
					if tier == "thorough" {
						parts = 32
					}
				}
				for p := 0; p < parts; p++ {
					us = append(us, c19SchedUnit(sc.Scope, tier, p, parts))
				}
			}
			return us
		},
		Post: func(r *core.Result, tier string) {
			// free-running -race pass of the same bodies (separate binary, no scheduler)
			bin := filepath.Join(c19Bin(), "vrace")
			rep := "10"
			if tier == "thorough" {
				rep = "100"
			}
			cmd := exec.Command(bin, "-repeats", rep)
			cmd.Env = append(os.Environ(), "GORACE=halt_on_error=0 exitcode=66")
			out, err := cmd.CombinedOutput()
			text := string(out)
			lines := strings.Split(strings.TrimSpace(text), "\n")
			r.Notef("race pass: %s", lines[len(lines)-1])
			code := 0
			if ee, ok := err.(*exec.ExitError); ok {
				code = ee.ExitCode()
			} else if err != nil {
				r.Internalf("race pass could not run: %v", err)
				return
			}
			r.Add("race_pass_runs", 1)
			if code == 66 || strings.Contains(text, "WARNING: DATA RACE") {
				first := ""
				for i, l := range lines {
					if strings.Contains(l, "WARNING: DATA RACE") {
						end := i + 12
						if end > len(lines) {
							end = len(lines)
						}
						first = strings.Join(lines[i:end], " / ")
						break
					}
				}
				r.Violate(core.Violation{Property: "C19", Scope: "race-pass", Kind: "data-race", Inputs: []string{"vrace", "-repeats", rep}, Expected: "no data race when goroutines share ecosystem, version and range values", Got: first})
			} else if code != 0 {
				r.Violate(core.Violation{Property: "C19", Scope: "race-pass", Kind: "concurrent-result-mismatch", Inputs: []string{"vrace", "-repeats", rep}, Expected: "concurrent results equal sequential results", Got: strings.Join(lines[max(0, len(lines)-4):], " / ")})
			}
		},
		Replay: func(v *core.Violation) (bool, string) {
			switch v.Kind {
			case "data-race", "concurrent-result-mismatch":
				cmd := exec.Command(filepath.Join(c19Bin(), "vrace"), "-repeats", v.Inputs[2])
				cmd.Env = append(os.Environ(), "GORACE=halt_on_error=0 exitcode=66")
				out, err := cmd.CombinedOutput()
				if ee, ok := err.(*exec.ExitError); ok && ee.ExitCode() != 0 {
					return true, "race pass exit " + strconv.Itoa(ee.ExitCode())
				}
				return strings.Contains(string(out), "DATA RACE"), "race pass clean"
			case "interleaving":
				sc, _ := scen.ByScope(v.Scope)
				i, _ := strconv.Atoi(v.Inputs[0])
				j, _ := strconv.Atoi(v.Inputs[1])
				sh0 := sc.Setup()
				want := []string{scen.SafeRun(sc.Ops[i], sh0), scen.SafeRun(sc.Ops[j], sh0)}
				schedule := v.Inputs[4]
				s := sc.Setup()
				x := sched.Run([]func() string{
					func() string { return scen.SafeRun(sc.Ops[i], s) },
					func() string { return scen.SafeRun(sc.Ops[j], s) },
				}, func(d int, enabled []int, running int) int {
					if d < len(schedule) {
						t := int(schedule[d] - '0')
						for idx, e := range enabled {
							if e == t {
								return idx
							}
						}
					}
					return 0
				})
				for k, res := range x.Results {
					if res != want[k] {
						return true, fmt.Sprintf("thread %d returned %q, sequentially %q", k, res, want[k])
					}
				}
				return x.Deadlock, "matches sequential results"
			default:
				// history kinds: Inputs are operation names; re-run the sequence against fresh-process baselines
				sc, _ := scen.ByScope(v.Scope)
				res := core.NewResult()
				base := c19Baselines(res, sc)
				if base == nil {
					return false, "no baselines"
				}
				idx := map[string]int{}
				for i, op := range sc.Ops {
					idx[op.Name] = i
				}
				sh := sc.Setup()
				vroots := sh.Roots()
				for k, name := range v.Inputs {
					oi, ok := idx[name]
					if !ok {
						return false, "operation no longer in the menu"
					}
					h0 := snap.Hash(true, vroots...)
					out := scen.SafeRun(sc.Ops[oi], sh)
					h1 := snap.Hash(true, vroots...)
					if k == len(v.Inputs)-1 {
						if v.Kind == "history-dependent-result" {
							return out != base[oi], fmt.Sprintf("got %q, alone %q", out, base[oi])
						}
						return h0 != h1, "shared values hash before/after"
					}
				}
				return false, "empty sequence"
			}
		},
		Finalize: func(r *core.Result, tier string) map[string]any {
			return map[string]any{
				"states":                        r.Counters["states"],
				"transitions":                   r.Counters["transitions"] + r.Counters["scheduling_points"],
				"traces_validated_against_impl": r.Counters["sequences"] + r.Counters["executions"],
				"evaluations":                   r.Counters["sequences"] + r.Counters["executions"],
				"distinct_nontrivial":           r.Counters["scenarios"] + r.Counters["sequences"],
				"history_depth":                 c19Depth(tier),
				"preemption_bound":              map[string]any{"quick": 1, "thorough": "1 for every scenario, 2 for the pairs among the first three operations and for neighbouring special operations"}[tier],
				"schedules_explored":            r.Counters["executions"],
				"scheduling_points":             r.Counters["scheduling_points"],
				"dependent_steps_observed":      r.Counters["dependent_steps"],
			}
		},
		Rule:        "21 scopes (20 ecosystems + VERS), each with shared Ecosystem/Version/VersionRange values and a menu of 12-24 operations (parsing, Compare in both orders, Contains on comparator and shorthand ranges, String, and Compare on operand pairs whose concatenation under some separator collides; VERS: 14 calls incl. the same constraint text under different schemes). (a) history search: EVERY operation sequence of length <= 2 (quick) / 3 (thorough; length 4 over the first 16 operations of the menu; at most one heavy operation per sequence) on fresh shared values; after every operation the deep snapshot (reflect+unsafe, unexported fields, slice capacity and backing array) of the shared values must be unchanged and the result must equal the result of that operation alone in a fresh process; states = distinct snapshots of values + all package-level variables. (b) interleavings: every unordered pair of the first 6 (thorough: all) operations plus all collision operations as 2 real goroutines on the same shared values under a cooperative scheduler with a scheduling point before every statement (overlay-injected); one execution with a snapshot after every step measures writing steps, then EVERY schedule with at most 1 preemption is executed (thorough: also 3-thread scenarios); results must equal the sequential results, no deadlock. (c) a separate free-running -race binary runs every ordered pair of operations concurrently on shared values (10 / 100 repeats) plus 8x all operations at once. distinct_nontrivial = scenarios + sequences.",
		Assumptions: []string{"interleavings are explored at statement granularity of the repository's own code; below that and for weak-memory effects the free-running -race pass is the (dynamic) complement", "standard-library internals (regexp caches) are trusted to be synchronised", "code that blocks on real locks is released and reported as not explored (exhaustive:false), never as a violation"},
	})
}
