package props

import (
	"strconv"

	"verif/engine/core"
	"verif/engine/gen"
	"verif/engine/ref"
)

func c13Candidates(lvl int) []string {
	n := gen.Lit("0", "1", "2", "10")
	word := gen.Lit("a", "b", "rc", "pre", "alpha", "beta", "x")
	wordN := gen.Seq(word, gen.Opt(gen.Lit("1", "2", "10", "0")))
	core := dotted(n, 1, 3)
	small := gen.Lit("1", "1.0", "1.1", "2.0.0", "1.0.0", "0")
	dotGroup := gen.Seq(gen.Lit("."), wordN)
	dashGroup := gen.Seq(gen.Lit("-"), word, gen.Opt(gen.Lit(".1", ".2", ".10", ".0")))
	g := gen.Alt(
		core,
		gen.Seq(small, dotGroup),
		gen.Seq(small, dashGroup),
		gen.Seq(small, gen.Lit("."), gen.Lit("a", "rc", "beta"), gen.Lit("."), gen.Lit("0", "1", "2", "10")),
		gen.Seq(gen.Lit("1.0", "1"), gen.Lit(".a", ".rc1", ".b2"), gen.Lit(".a", ".rc1", ".1", ".0", ".b")),
		gen.Seq(gen.Lit("1.0", "1"), gen.Lit("-a", "-rc"), gen.Lit(".a", ".1", "-b", ".b.1")),
	)
	m := gen.Magnitudes
	g = gen.Alt(g, gen.Seq(gen.Lit("1.", "1.a", "1.rc.", "1.0.", "1-a."), m), gen.Seq(m, gen.Lit("", ".1", ".a")), gen.Seq(gen.Lit("1.", "1.a", "1.rc.", "1.0."), gen.Alt(gen.LeadingZeros, gen.Lit("7", "8", "9", "10", "11"))))
	g = gen.Alt(g, gen.SlotFamily("gem"))
	g = gen.Alt(g, gen.Seq(gen.Lit("1.2.3.4.5.6.7.8.", "1.1.1.1.1.1.1.1.1.1.1.1.1.1.1.1."), gen.Lit("9", "10", "0", "a")), gen.Lit("1.2.3.4.rc1-beta.2", "1.2.3.4.rc1-beta.3", "1.2.3.4.rc1.beta.2", "1.2.3.4.5.rc1-beta.2", "1.2.3.4.5.rc1-beta.10"))
	for _, v := range ref.GemVectors {
		g = append(g, v[0], v[1])
	}
	if lvl > 0 {
		g = gen.Alt(g,
			gen.Seq(core, dotGroup),
			gen.Seq(core, dashGroup),
			gen.Seq(dotted(gen.Lit("0", "1", "10"), 4, 5)),
			gen.Seq(small, dotGroup, gen.Lit(".0", ".1", ".a", ".rc2")),
			gen.AllStrings([]string{"1", "0", ".", "a", "rc", "-"}, 6),
			gen.Seq(small, dotGroup, dotGroup),
			gen.Seq(small, dashGroup, gen.Lit(".a", ".1", "-b", ".0.b")),
		)
	} else {
		g = gen.Alt(g, gen.AllStrings([]string{"1", "0", ".", "a", "-"}, 5))
	}
	return g
}

func init() {
	spec := &refSpec{Prop: "C13", Eco: "gem", Blocks: 16,
		Candidates: c13Candidates,
		Valid:      ref.GemValid,
		Cmp:        ref.GemCompare,
	}
	registerRef("C13", "RubyGems versions order as Gem::Version does", []*refSpec{spec},
		"every candidate N(.N)* followed by mixes of .word[N], -word[.N] groups (1-6 segments, numbers incl. 0 and multi-digit, single-case letters), RubyGems' documented examples and all token strings <= L over {1 0 . a rc -}, restricted to RubyGems' VERSION_PATTERN and to strings the implementation accepts; all ordered pairs compared with the real Compare against a Go port of Gem::Version#<=>. distinct_nontrivial = pairs the reference orders strictly.",
		[]string{"no ruby exists in this image: the Go port is validated only against RubyGems' documented examples (asserted on every run)"},
		[]string{"engine/ref/gem.go (port of Gem::Version#<=> and canonical_segments) - not conformance-checked against an executable RubyGems"})
	p := core.Get("C13")
	inner := p.Units
	p.Units = func(tier string) []core.Unit {
		us := inner(tier)
		us = append(us, core.Unit{Name: "C13/gem/vectors", Weight: 1, Run: func(r *core.Result) {
			for _, v := range ref.GemVectors {
				want, _ := strconv.Atoi(v[2])
				got, tag := ref.GemCompare(v[0], v[1])
				r.Add("port_vectors", 1)
				if got != want {
					r.Internalf("Gem::Version port disagrees with RubyGems' example %s vs %s: port=%d (%s) want=%d", v[0], v[1], got, tag, want)
				}
			}
		}})
		return us
	}
}
