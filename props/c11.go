package props

import (
	"strconv"

	"verif/engine/core"
	"verif/engine/gen"
	"verif/engine/ref"
)

func init() {
	spec := &refSpec{Prop: "C11", Eco: "rpm", Blocks: 16,
		Candidates: func(lvl int) []string {
			g := gen.Versions("rpm", lvl)
			g = gen.Alt(g,
				gen.Seq(gen.Lit("1", "1:2", "2", "3"), gen.Lit("", ":3", "-1", "-2")),
				gen.Seq(gen.Lit("1.0", "1.0.", "1.0+", "1.0-1", "1.0-1.", "2.5..", "1.0.~rc1", "1.0.-1", "1.0-2")),
				gen.Seq(gen.Lit("1.", "1-"), gen.Lit("18446744073709551616", "18446744073709551617", "0000000000000000000000001", "99999999999999999999", "100000000000000000000", "18446744073709551615", "2", "02")),
			)
			if lvl > 0 {
				piece := gen.Lit("0", "1", "2", "10", "01", "a", "z", "A", ".", "_", "+", "~", "^", "ab")
				g = gen.Alt(g, gen.Seq(gen.Lit("1", "a", "10"), gen.Rep(piece, 3, 3)), gen.Seq(gen.Lit("1.0", "1"), gen.Rep(piece, 1, 2), gen.Lit("-1", "-2.el7", "-a")))
			}
			for _, v := range ref.RpmVectors {
				g = append(g, v[0], v[1])
			}
			g = gen.Alt(g, gen.Seq(gen.Lit("1.0-1", "1.0-2", "1.0.1-1", "1:1.0-1"), gen.Lit("^git1", "^1", "~pre", "^git1~pre", "~", "^", ".^1", "^.1")))
			m := gen.Magnitudes
			g = gen.Alt(g, gen.Seq(gen.Lit("1.", "1-", "1a", "1:1.", "1~", "1^"), m), gen.Seq(m, gen.Lit(":1", "", "-1", ".1", "a")), gen.Seq(gen.Lit("1.", "1-", "1a", "1~", "1^"), gen.LeadingZeros), gen.Seq(gen.Lit("1.", "1-"), gen.Lit("7", "8", "9", "10", "11")), gen.Seq(gen.Alt(gen.LeadingZeros, gen.Lit("7", "8", "9", "10")), gen.Lit(":1", ":1.0")), gen.Seq(gen.Lit("0:", "1:", ""), gen.Lit("0.9.8", "0.1", "0", "00.1", "0-1", "0.9.8-1")))
			return g
		},
		Valid: ref.RpmValid,
		PairOK: func(a, b string) bool {
			// a missing release against a present release starting with '~' is a don't-care
			// (rpm's own conventions differ); everything else is claimed.
			_, _, ra, ha := ref.RpmSplit(a)
			_, _, rb, hb := ref.RpmSplit(b)
			if ha != hb && (len(ra) > 0 && ra[0] == '~' || len(rb) > 0 && rb[0] == '~') {
				return false
			}
			return true
		},
		Cmp: ref.RpmCompare,
	}
	registerRef("C11", "RPM versions order as rpmvercmp does", []*refSpec{spec},
		"every candidate from the rpm token grammar, rpm's own test vectors and all strings <= L over [0 1 9 a z . _ ~ ^ - :] that the implementation accepts and that lie in C11's domain; all ordered pairs compared with the real Compare against a Go port of rpmvercmp (rpm >= 4.15) applied to epoch, version, release. distinct_nontrivial = pairs the reference orders strictly.",
		[]string{"no rpm binary exists in this image: the Go port is validated only against rpm's documented test vectors (asserted on every run)", "a missing release compares as the empty string (rpmVersionCompare); pairs where that meets a release starting with '~' are not claimed"},
		[]string{"engine/ref/rpm.go (port of rpmio/rpmvercmp.c, rpm >= 4.15) - not conformance-checked against an executable rpm"})
	// self-check of the port against rpm's vectors, run as part of every C11 run
	p := core.Get("C11")
	inner := p.Units
	p.Units = func(tier string) []core.Unit {
		us := inner(tier)
		us = append(us, core.Unit{Name: "C11/rpm/vectors", Weight: 1, Run: func(r *core.Result) {
			for _, v := range ref.RpmVectors {
				want, _ := strconv.Atoi(v[2])
				got, tag := ref.Rpmvercmp(v[0], v[1])
				r.Add("port_vectors", 1)
				if got != want {
					r.Internalf("rpmvercmp port disagrees with rpm's vector %s vs %s: port=%d (%s) want=%d", v[0], v[1], got, tag, want)
				}
			}
		}})
		return us
	}
}
