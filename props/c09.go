package props

import (
	"verif/engine/gen"
	"verif/engine/ref"
)

func c09Candidates(lvl int) []string {
	ep := gen.Opt(gen.Lit("0!", "1!"))
	rel := gen.Lit("1", "1.0", "1.0.0", "1.1", "2", "1.0.1", "0.9", "10", "1.0.0.0.1", "0", "1.10")
	pre := gen.Opt(gen.Lit("a0", "a1", "b1", "rc1", "rc2", "alpha1", "beta1", "c1", ".a1", ".rc1", "a10"))
	post := gen.Opt(gen.Lit(".post0", ".post1", "post1", ".rev1", ".r1", "r1", ".post2"))
	dev := gen.Opt(gen.Lit(".dev0", ".dev1", "dev1", ".dev2"))
	local := gen.Opt(gen.Lit("+abc", "+1", "+abc.1", "+a.b", "+2", "+abc.2", "+1.a"))
	var g gen.G
	if lvl == 0 {
		g = gen.Alt(
			gen.Seq(ep, rel),
			gen.Seq(gen.Lit("1.0", "1", "1.1"), pre, post, dev),
			gen.Seq(gen.Lit("1!1.0"), pre, gen.Opt(gen.Lit(".post1")), gen.Opt(gen.Lit(".dev1"))),
			gen.Seq(gen.Lit("1.0"), gen.Opt(gen.Lit("a1", "rc1")), gen.Opt(gen.Lit(".post1")), gen.Opt(gen.Lit(".dev1")), local),
		)
	} else {
		g = gen.Alt(
			gen.Seq(ep, rel),
			gen.Seq(gen.Opt(gen.Lit("1!")), gen.Lit("1.0", "1", "1.1", "1.0.0.0.1", "2", "1.0.0", "0.9", "1.10"), pre, post, dev),
			gen.Seq(gen.Lit("1.0", "1.1", "1"), gen.Opt(gen.Lit("a1", "rc1", "b2")), gen.Opt(gen.Lit(".post1", ".post2")), gen.Opt(gen.Lit(".dev1", ".dev2")), local),
		)
	}
	// every numeric slot at the magnitudes where packed keys / narrowed integers change behaviour
	m := gen.Magnitudes
	g = gen.Alt(g,
		gen.Seq(gen.Lit("1.0", "1"), gen.Lit("a", "b", "rc"), m),
		gen.Seq(gen.Lit("1.0", "1.0a1"), gen.Lit(".post", ".dev"), m),
		gen.Seq(gen.Lit("1.0.post1.dev"), m),
		gen.Seq(gen.Lit("1.", "1.0."), m),
		gen.Seq(m, gen.Lit("!1.0", ".0")),
		gen.Seq(gen.Lit("1.0+"), m),
		gen.Seq(gen.Lit("1.", "1.0.", "1.0a", "1.0.post", "1.0.dev", "1.0+"), gen.LeadingZeros),
		gen.Seq(gen.LeadingZeros, gen.Lit("!1.0", ".0")),
		gen.Seq(gen.Lit("1.", "1.0.", "1.0a", "1.0.post", "1.0.dev"), gen.Lit("7", "8", "9", "10", "11")),
		gen.SlotFamily("pypi"),
	)
	return g
}

// Candidates0 exposes the quick candidate set for the conformance dump.
func C09Candidates0() []string { return c09Candidates(0) }

func init() {
	spec := &refSpec{Prop: "C09", Eco: "pypi", Blocks: 16,
		Candidates: c09Candidates,
		Valid:      ref.Pep440Valid,
		Cmp:        ref.Pep440Compare,
	}
	registerRef("C09", "PyPI versions order as PEP 440 specifies", []*refSpec{spec},
		"the product epoch x release x pre x post x dev x local of C09's grammar (every present/absent combination, spelling variants with and without the dot), restricted to strings the implementation and the reference grammar accept; all ordered pairs compared with the real Compare against a Go port of packaging.version._cmpkey. distinct_nontrivial = pairs the reference orders strictly.",
		[]string{"the Go port of _cmpkey is the oracle; it is replayed against packaging 26.3 by conformance/packaging.sh"},
		[]string{"engine/ref/pep440.go (port of packaging.version._cmpkey), conformance-checked against packaging 26.3"},
		"conformance/packaging.sh")
}
