package props

import (
	"fmt"
	"strings"

	"verif/engine/core"
	"verif/engine/eco"
	"verif/engine/gen"
	"verif/engine/univ"
)

func allIdx(n int) []int {
	out := make([]int, n)
	for i := range out {
		out[i] = i
	}
	return out
}

func c18Pads(lvl int) []string {
	if lvl == 0 {
		return []string{"", " ", "\t", "\n", "\r", "\n ", " \n", "\r\n"}
	}
	return []string{"", " ", "\t", "\r", "\n", "  ", " \t", "\n ", " \n", "\r\n", "\t\n ", " \r"}
}

func c18Unit(name string, lvl int) core.Unit {
	return core.Unit{Name: "C18/" + name, Weight: 10, Run: func(r *core.Result) {
		e := eco.ByName(name)
		u := univ.Versions(e, 0)
		pads := c18Pads(lvl)
		nProbe := 24
		if lvl > 0 {
			nProbe = 80
		}
		all := make([]int, len(u.Strs))
		for i := range all {
			all[i] = i
		}
		probes := stride(all, nProbe)
		viol := func(kind string, inputs []string, exp, got string) {
			r.Violate(core.Violation{Property: "C18", Scope: name, Kind: kind, Inputs: inputs, Expected: exp, Got: got})
		}
		// ---- versions: accepted ones
		for i, s := range u.Strs {
			v := u.Vers[i]
			r.Add("states", 1)
			// String() and re-parse
			str := v.String()
			r.Add("evaluations", 1)
			if strings.TrimSpace(str) != strings.TrimSpace(s) {
				viol("version-string", []string{s}, "String() == input up to surrounding whitespace", fmt.Sprintf("%q", str))
			}
			rv, err := eco.SafeParse(e, str)
			if err != nil {
				viol("version-reparse", []string{s}, "String() parses again", "error: "+err.Error())
			} else if c, p := eco.SafeCompare(rv, v); p != nil || c != 0 {
				viol("version-reparse", []string{s}, "re-parsed value compares equal", fmt.Sprintf("Compare=%d", c))
			}
			// base comparisons
			base := make([][2]int, len(probes))
			for k, pi := range probes {
				c1, _ := eco.SafeCompare(v, u.Vers[pi])
				c2, _ := eco.SafeCompare(u.Vers[pi], v)
				base[k] = [2]int{c1, c2}
			}
			for _, lead := range pads {
				for _, trail := range pads {
					if lead == "" && trail == "" {
						continue
					}
					ps := lead + s + trail
					pv, err := eco.SafeParse(e, ps)
					r.Add("evaluations", 1)
					if err != nil {
						viol("version-padding-acceptance", []string{ps, s}, "padded input accepted like the unpadded one", "error: "+err.Error())
						continue
					}
					if strings.TrimSpace(pv.String()) != s {
						viol("version-string", []string{ps}, "String() == input up to surrounding whitespace", fmt.Sprintf("%q", pv.String()))
					}
					// the padded value against the unpadded value of the same text
					if c1, p1 := eco.SafeCompare(pv, v); p1 != nil || c1 != 0 {
						viol("version-padding-compare", []string{ps, s, s}, "Compare(padded, unpadded)=0", fmt.Sprintf("%d", c1))
					} else if c2, p2 := eco.SafeCompare(v, pv); p2 != nil || c2 != 0 {
						viol("version-padding-compare", []string{ps, s, s}, "Compare(unpadded, padded)=0", fmt.Sprintf("%d", c2))
					}
					r.Add("evaluations", 2)
					for k, pi := range probes {
						c1, p1 := eco.SafeCompare(pv, u.Vers[pi])
						c2, p2 := eco.SafeCompare(u.Vers[pi], pv)
						r.Add("evaluations", 2)
						if p1 != nil || p2 != nil || c1 != base[k][0] || c2 != base[k][1] {
							viol("version-padding-compare", []string{ps, s, u.Strs[pi]}, fmt.Sprintf("Compare(padded,b)=%d Compare(b,padded)=%d as unpadded", base[k][0], base[k][1]), fmt.Sprintf("%d %d", c1, c2))
							break
						}
					}
					// padded against padded of another version
					if len(probes) > 0 {
						o := probes[(i+1)%len(probes)]
						po, err := eco.SafeParse(e, trail+u.Strs[o]+lead)
						if err == nil {
							want, _ := eco.SafeCompare(v, u.Vers[o])
							got, _ := eco.SafeCompare(pv, po)
							r.Add("evaluations", 1)
							if got != want {
								viol("version-padding-compare", []string{ps, s, trail + u.Strs[o] + lead}, fmt.Sprintf("Compare=%d as unpadded", want), fmt.Sprintf("%d", got))
							}
						}
					}
				}
			}
		}
		// long padding (length limits applied before trimming): 300 and 5000 blanks on either side
		for _, i := range stride(allIdx(len(u.Strs)), 12) {
			s, v := u.Strs[i], u.Vers[i]
			if s != strings.TrimSpace(s) {
				continue
			}
			for _, n := range []int{300, 5000} {
				for _, ps := range []string{strings.Repeat(" ", n) + s, s + strings.Repeat(" ", n), strings.Repeat("\n", n) + s + strings.Repeat("\t", n)} {
					pv, err := eco.SafeParse(e, ps)
					r.Add("evaluations", 1)
					if err != nil {
						viol("version-padding-acceptance", []string{ps, s}, "padded input accepted like the unpadded one", "error: "+err.Error())
						continue
					}
					if c, p := eco.SafeCompare(pv, v); p != nil || c != 0 {
						viol("version-padding-compare", []string{ps, s, s}, "Compare(padded, unpadded)=0", fmt.Sprintf("%d", c))
					}
				}
			}
		}
		r.Add("nontrivial", int64(len(u.Strs)))
		// ---- versions: rejected candidates must stay rejected when padded
		cands := gen.Uniq(gen.Versions(name, 0))
		acc := map[string]bool{}
		for _, s := range u.Strs {
			acc[s] = true
		}
		nrej := 0
		for _, s := range cands {
			if acc[s] || s == "" || s != strings.TrimSpace(s) {
				continue
			}
			nrej++
			if lvl == 0 && nrej%3 != 0 {
				continue
			}
			for _, pad := range [][2]string{{" ", ""}, {"", " "}, {"\t", "\n"}, {"\n", ""}, {"", "\t"}} {
				ps := pad[0] + s + pad[1]
				_, err := eco.SafeParse(e, ps)
				r.Add("evaluations", 1)
				if err == nil {
					viol("version-padding-acceptance", []string{ps, s}, "padded input rejected like the unpadded one", "accepted")
				}
			}
		}
		// ---- ranges
		rc := gen.Uniq(gen.Ranges(name, 0))
		rprobes := stride(all, 40)
		{
			// always probe the range-bound versions themselves and members that start with a letter prefix
			have := map[int]bool{}
			for _, i := range rprobes {
				have[i] = true
			}
			want := map[string]bool{}
			for _, b := range gen.RangeBounds[name] {
				want[b] = true
			}
			extra := 0
			for i, s := range u.Strs {
				if have[i] {
					continue
				}
				letterPrefix := len(s) > 1 && (s[0] < '0' || s[0] > '9') && extra < 12
				if want[s] || letterPrefix {
					rprobes = append(rprobes, i)
					have[i] = true
					if letterPrefix {
						extra++
					}
				}
			}
		}
		for _, rs := range rc {
			if rs == "" || rs != strings.TrimSpace(rs) {
				continue
			}
			rg, err := eco.SafeParseRange(e, rs)
			r.Add("states", 1)
			if err != nil {
				for _, pad := range [][2]string{{" ", ""}, {"", " "}, {"\t", "\n"}} {
					if _, err2 := eco.SafeParseRange(e, pad[0]+rs+pad[1]); err2 == nil {
						viol("range-padding-acceptance", []string{pad[0] + rs + pad[1], rs}, "padded range rejected like the unpadded one", "accepted")
					}
				}
				continue
			}
			r.Add("nontrivial", 1)
			if strings.TrimSpace(rg.String()) != rs {
				viol("range-string", []string{rs}, "String() == input up to surrounding whitespace", fmt.Sprintf("%q", rg.String()))
			}
			base := make([]bool, len(rprobes))
			for k, pi := range rprobes {
				base[k], _ = eco.SafeContains(rg, u.Vers[pi])
			}
			check := func(kind, text string, inputs []string) {
				g2, err := eco.SafeParseRange(e, text)
				r.Add("evaluations", 1)
				if err != nil {
					viol(kind+"-acceptance", inputs, "accepted like the original", "error: "+err.Error())
					return
				}
				for k, pi := range rprobes {
					got, p := eco.SafeContains(g2, u.Vers[pi])
					r.Add("evaluations", 1)
					if p != nil || got != base[k] {
						viol(kind+"-contains", append(inputs, u.Strs[pi]), fmt.Sprintf("Contains=%v as the original", base[k]), fmt.Sprintf("%v", got))
						return
					}
				}
			}
			check("range-reparse", rg.String(), []string{rg.String(), rs})
			for _, lead := range pads {
				for _, trail := range pads {
					if lead == "" && trail == "" {
						continue
					}
					check("range-padding", lead+rs+trail, []string{lead + rs + trail, rs})
				}
			}
			// padded probe versions against the range
			for k, pi := range rprobes {
				for _, pad := range [][2]string{{" ", "\n"}, {"", "\r\n"}, {"\t", ""}} {
					ps := pad[0] + u.Strs[pi] + pad[1]
					pv, err := eco.SafeParse(e, ps)
					if err != nil {
						continue
					}
					got, _ := eco.SafeContains(rg, pv)
					r.Add("evaluations", 1)
					if got != base[k] {
						viol("version-padding-contains", []string{rs, ps}, fmt.Sprintf("Contains=%v as for the unpadded version", base[k]), fmt.Sprintf("%v", got))
						break
					}
				}
			}
		}
		r.Sample("padding", map[string]any{"eco": name, "input": "\t" + u.Strs[len(u.Strs)/2] + " \n"})
	}}
}

func init() {
	core.Register(&core.Prop{
		ID:    "C18",
		Title: "Parsed values keep their text; re-parsing and outer whitespace change nothing",
		Units: func(tier string) []core.Unit {
			var us []core.Unit
			for _, n := range gen.EcoNames {
				us = append(us, c18Unit(n, level(tier)))
			}
			return us
		},
		Replay: func(v *core.Violation) (bool, string) {
			e := eco.ByName(v.Scope)
			in := v.Inputs
			switch v.Kind {
			case "version-string":
				x, err := eco.SafeParse(e, in[0])
				if err != nil {
					return false, "not accepted"
				}
				return strings.TrimSpace(x.String()) != strings.TrimSpace(in[0]), fmt.Sprintf("%q", x.String())
			case "version-reparse":
				x, err := eco.SafeParse(e, in[0])
				if err != nil {
					return false, "not accepted"
				}
				y, err := eco.SafeParse(e, x.String())
				if err != nil {
					return true, err.Error()
				}
				c, _ := eco.SafeCompare(y, x)
				return c != 0, fmt.Sprintf("Compare=%d", c)
			case "version-padding-acceptance":
				_, e1 := eco.SafeParse(e, in[0])
				_, e2 := eco.SafeParse(e, in[1])
				return (e1 == nil) != (e2 == nil), fmt.Sprintf("padded accepted=%v unpadded accepted=%v", e1 == nil, e2 == nil)
			case "version-padding-compare":
				p, e1 := eco.SafeParse(e, in[0])
				s, e2 := eco.SafeParse(e, in[1])
				b, e3 := eco.SafeParse(e, in[2])
				if e1 != nil || e2 != nil || e3 != nil {
					return e1 != nil && e2 == nil, "parse"
				}
				a1, _ := eco.SafeCompare(p, b)
				a2, _ := eco.SafeCompare(b, p)
				b1, _ := eco.SafeCompare(s, b)
				b2, _ := eco.SafeCompare(b, s)
				// in[2] may itself be padded: compare against its trimmed form too
				return a1 != b1 || a2 != b2, fmt.Sprintf("padded %d %d unpadded %d %d", a1, a2, b1, b2)
			case "range-string":
				x, err := eco.SafeParseRange(e, in[0])
				if err != nil {
					return false, "not accepted"
				}
				return strings.TrimSpace(x.String()) != strings.TrimSpace(in[0]), fmt.Sprintf("%q", x.String())
			case "range-padding-acceptance", "range-reparse-acceptance":
				_, e1 := eco.SafeParseRange(e, in[0])
				_, e2 := eco.SafeParseRange(e, in[1])
				return (e1 == nil) != (e2 == nil), fmt.Sprintf("variant accepted=%v original accepted=%v", e1 == nil, e2 == nil)
			case "range-padding-contains", "range-reparse-contains":
				r1, e1 := eco.SafeParseRange(e, in[0])
				r2, e2 := eco.SafeParseRange(e, in[1])
				pv, e3 := eco.SafeParse(e, in[2])
				if e1 != nil || e2 != nil || e3 != nil {
					return false, "parse"
				}
				c1, _ := eco.SafeContains(r1, pv)
				c2, _ := eco.SafeContains(r2, pv)
				return c1 != c2, fmt.Sprintf("variant %v original %v", c1, c2)
			case "version-padding-contains":
				rg, e1 := eco.SafeParseRange(e, in[0])
				p, e2 := eco.SafeParse(e, in[1])
				s, e3 := eco.SafeParse(e, strings.TrimSpace(in[1]))
				if e1 != nil || e2 != nil || e3 != nil {
					return false, "parse"
				}
				c1, _ := eco.SafeContains(rg, p)
				c2, _ := eco.SafeContains(rg, s)
				return c1 != c2, fmt.Sprintf("padded %v unpadded %v", c1, c2)
			}
			return false, "unknown kind"
		},
		Finalize: func(r *core.Result, tier string) map[string]any {
			return map[string]any{
				"states":                        r.Counters["states"],
				"transitions":                   r.Counters["evaluations"],
				"traces_validated_against_impl": r.Counters["evaluations"],
				"evaluations":                   r.Counters["evaluations"],
				"distinct_nontrivial":           r.Counters["nontrivial"],
			}
		},
		Rule:        "for every accepted version string of C01's quick universe and every accepted range string of the range grammar: String() equals the input up to outer whitespace; String() parses again to an equal value (ranges: identical membership on a 40-version probe set); every padding lead x trail over {'', SP, TAB, LF, CR, LF SP, SP LF, CR LF} (thorough: 12 paddings incl. three-character ones) leaves acceptance, String(), Compare against the unpadded value itself (= 0) and Compare against a stride probe set (24 / 80 versions, both argument orders, and padded-vs-padded) / Contains unchanged; rejected candidate strings stay rejected when padded; 12 versions per ecosystem are also padded with 300 and 5000 blanks / line feeds / tabs. distinct_nontrivial = accepted versions + accepted ranges.",
		Assumptions: []string{"paddings are drawn from space, tab, CR, LF as the property states"},
	})
}
