package props

import (
	"bufio"
	"os"
	"strings"

	"verif/engine/core"
	"verif/engine/gen"
	"verif/engine/ref"
)

func c14Candidates(lvl int) []string {
	vals := gen.Lit("0", "1", "2", "10", "2147483647")
	core := dotted(vals, 1, 2)
	core = gen.Alt(core, dotted(gen.Lit("0", "1", "10"), 3, 3))
	if lvl > 0 {
		core = gen.Alt(core, dotted(vals, 3, 3), dotted(gen.Lit("0", "1"), 4, 5))
	} else {
		core = gen.Alt(core, gen.Lit("1.0.0.0", "1.0.0.1", "1.0.0.0.0", "1.0.0.0.1"))
	}
	letter := gen.Opt(gen.Lit("a", "b", "z"))
	names := gen.Lit("alpha", "beta", "pre", "rc", "cvs", "svn", "git", "hg", "p")
	sfx := gen.Seq(gen.Lit("_"), names, gen.Opt(gen.Lit("1", "2")))
	sfxS := gen.Seq(gen.Lit("_"), gen.Lit("alpha", "rc", "cvs", "git", "p"), gen.Opt(gen.Lit("1")))
	sfxBig := gen.Seq(gen.Lit("_"), names, gen.Lit("1048576", "20230101", "2147483647"))
	rev := gen.Opt(gen.Lit("-r0", "-r1", "-r2"))
	small := gen.Lit("1", "1.0", "1.1", "1.0.0")
	g := gen.Alt(
		gen.Seq(core, letter),
		gen.Seq(small, letter, sfx, rev),
		gen.Seq(gen.Lit("1.0", "1"), gen.Opt(gen.Lit("a")), sfxS, sfxS, gen.Opt(gen.Lit("-r1"))),
		gen.Seq(gen.Lit("1.0"), sfxS, sfxS, sfxS),
		gen.Seq(small, rev),
		gen.Seq(gen.Lit("1.0", "1"), sfxBig, gen.Opt(gen.Lit("-r1"))),
	)
	m := gen.Magnitudes
	g = gen.Alt(g, gen.Seq(gen.Lit("1.", "1.0_p", "1.0_rc", "1.0-r", "1.0_git", "1.0a_alpha"), m), gen.Seq(m, gen.Lit("", ".1", "a", "_p1")), gen.Seq(gen.Lit("1.0_p", "1.0_rc", "1.0-r"), gen.Alt(gen.LeadingZeros, gen.Lit("7", "8", "9", "10", "11"))))
	g = gen.Alt(g, gen.SlotFamily("alpine"))
	if lvl > 0 {
		g = gen.Alt(g,
			gen.Seq(gen.Lit("1.0", "1.1", "1", "1.0.0"), gen.Opt(gen.Lit("a", "z")), sfx, sfxS, gen.Opt(gen.Lit("-r1", "-r2"))),
			gen.Seq(gen.Lit("1.0", "1"), sfxS, sfx, sfxS),
			gen.Seq(gen.Lit("1.0"), gen.Opt(gen.Lit("a")), sfx, sfx),
		)
	}
	return g
}

func init() {
	spec := &refSpec{Prop: "C14", Eco: "alpine", Blocks: 16,
		Candidates: c14Candidates,
		Valid:      ref.ApkValid,
		PairOK:     ref.ApkSameArity,
		Cmp:        ref.ApkCompare,
	}
	registerRef("C14", "Alpine versions order as apk-tools does", []*refSpec{spec},
		"every well-formed apk version from the grammar digits{.digits}[letter]{_suffix[digits]}[-rN] (1-5 components over {0,1,2,10,2^31-1}, no leading zeros, optional letter, 0-3 suffixes of the nine names with and without numbers, optional -rN); all ordered pairs with equal component counts compared with the real Compare against a Go model of the apk-tools token order as restated in the property. distinct_nontrivial = pairs the reference orders strictly.",
		[]string{"no apk binary exists in this image: the model is cross-checked against the repository's copy of apk-tools' version.data (every row inside the domain must agree, asserted on every run)"},
		[]string{"engine/ref/apk.go (model of apk-tools' version order on the well-formed subset)"})
	p := core.Get("C14")
	inner := p.Units
	p.Units = func(tier string) []core.Unit {
		us := inner(tier)
		us = append(us, core.Unit{Name: "C14/alpine/testdata-selfcheck", Weight: 1, Run: func(r *core.Result) {
			f, err := os.Open("/repo/pkg/ecosystem/alpine/testdata/compare.txt")
			if err != nil {
				r.Notef("apk version.data not found: model self-check skipped")
				return
			}
			defer f.Close()
			sc := bufio.NewScanner(f)
			for sc.Scan() {
				line := sc.Text()
				if i := strings.Index(line, "#"); i >= 0 {
					line = line[:i]
				}
				parts := strings.Fields(line)
				if len(parts) != 3 {
					continue
				}
				if !ref.ApkValid(parts[0]) || !ref.ApkValid(parts[2]) || !ref.ApkSameArity(parts[0], parts[2]) {
					continue
				}
				want := map[string]int{"<": -1, "=": 0, ">": 1}[parts[1]]
				got, tag := ref.ApkCompare(parts[0], parts[2])
				r.Add("model_rows_checked", 1)
				if got != want {
					r.Internalf("apk model disagrees with apk-tools' version.data row %q: model=%d (%s)", sc.Text(), got, tag)
				}
			}
		}})
		return us
	}
}
