package props

import (
	"fmt"
	"strings"

	"verif/engine/core"
	"verif/engine/eco"
	"verif/engine/gen"
)

var versSupported = map[string]bool{"alpine": true, "cargo": true, "deb": true, "gem": true, "generic": true, "golang": true, "maven": true, "npm": true, "nuget": true, "pypi": true, "rpm": true}

// versMustError is the reference syntax classifier (DESIGN.md Appendix A.9). It returns the
// reason a (range, probe) pair must be answered with (false, error), or "" when the pair carries
// no must-error expectation (still valid, or the lone '*' which is outside the claim).
func versMustError(r, probe string) string {
	if !strings.HasPrefix(r, "vers:") {
		return "prefix"
	}
	for i := 0; i < len(r); i++ {
		if r[i] < 0x20 || r[i] > 0x7e {
			return "non-printable-or-non-ascii"
		}
	}
	rest := r[5:]
	slash := strings.Index(rest, "/")
	if slash < 0 {
		return "no-slash"
	}
	scheme := rest[:slash]
	if scheme == "" {
		return "empty-scheme"
	}
	for i := 0; i < len(scheme); i++ {
		c := scheme[i]
		if !((c >= 'a' && c <= 'z') || (c >= '0' && c <= '9')) {
			return "scheme-charset"
		}
	}
	var cs []string
	stars := 0
	for _, c := range strings.Split(rest[slash+1:], "|") {
		c = strings.ReplaceAll(c, " ", "")
		if c == "" {
			continue
		}
		if c == "*" {
			stars++
			continue
		}
		cs = append(cs, c)
	}
	if stars > 1 || (stars == 1 && len(cs) > 0) {
		return "misplaced-star"
	}
	if stars == 1 {
		return "" // lone star: not covered
	}
	if !versSupported[scheme] {
		return "unsupported-scheme"
	}
	if len(cs) == 0 {
		return "no-constraint"
	}
	e := eco.ByName(eco.SchemeEco[scheme])
	for _, c := range cs {
		op := ""
		for _, o := range []string{">=", "<=", "!=", ">", "<", "="} {
			if strings.HasPrefix(c, o) {
				op = o
				break
			}
		}
		if op == "" {
			return "constraint-without-comparator"
		}
		v := c[len(op):]
		if v == "" {
			return "constraint-without-version"
		}
		if _, err := eco.SafeParse(e, v); err != nil {
			return "constraint-version-rejected"
		}
	}
	if _, err := eco.SafeParse(e, probe); err != nil {
		return "probe-rejected"
	}
	return ""
}

var c17Sigma = []string{"a", "z", "A", "0", "9", ":", "/", "|", "*", "=", "<", ">", "!", ".", "-", " ", "\t", "\x00", "é", "~", "\x7f", "\x1f", "\x80"}

func c17Seeds(scheme string, lvl int) []string {
	p0, p1 := versPools[scheme][0], versPools[scheme][1]
	seeds := []string{
		"vers:" + scheme + "/>=" + p0[1] + "|<" + p0[3],
		"vers:" + scheme + "/<" + p0[1] + "|=" + p0[3] + "|>" + p0[5],
		"vers:" + scheme + "/!=" + p1[3],
		// the first probe (p0[2]) is decided by the FIRST constraint / interval of these seeds, so a
		// corruption further right is only noticed by code that validates before it answers
		"vers:" + scheme + "/!=" + p0[2] + "|!=" + p0[4],
		"vers:" + scheme + "/=" + p0[2] + "|=" + p0[4],
		"vers:" + scheme + "/>=" + p0[1] + "|<" + p0[3] + "|>=" + p0[5] + "|<" + p0[7],
	}
	if lvl > 0 {
		seeds = append(seeds,
			"vers:"+scheme+"/>="+p1[1]+"|<="+p1[4]+"|!="+p1[2],
			"vers:"+scheme+"/="+p0[2],
			"vers:"+scheme+"/>"+p1[0]+"|<"+p1[2]+"|>="+p1[4]+"|<="+p1[6],
			"vers:"+scheme+"/<="+p0[1]+"|!="+p0[3]+"|>"+p0[5],
			"vers:"+scheme+"/ >= "+p0[1]+" | < "+p0[3]+" ",
			"vers:"+scheme+"/="+p1[2]+"|="+p1[5]+"|!="+p1[7],
		)
	}
	return seeds
}

func c17Corruptions(seed string) []string {
	var out []string
	for i := 0; i < len(seed); i++ {
		out = append(out, seed[:i]+seed[i+1:]) // delete
		for _, c := range c17Sigma {
			out = append(out, seed[:i]+c+seed[i+1:]) // replace
		}
	}
	for i := 0; i <= len(seed); i++ {
		for _, c := range c17Sigma {
			out = append(out, seed[:i]+c+seed[i:]) // insert
		}
	}
	// the percent-encoded spelling of each single character behind the prefix (a decoder must not
	// turn a version the ecosystem rejects as written into one it accepts)
	for i := 5; i < len(seed); i++ {
		out = append(out, seed[:i]+fmt.Sprintf("%%%02X", seed[i])+seed[i+1:], seed[:i]+fmt.Sprintf("%%%02x", seed[i])+seed[i+1:])
	}
	// scheme case change, operator mangling, prefix damage
	rest := seed[5:]
	slash := strings.Index(rest, "/")
	scheme, cons := rest[:slash], rest[slash+1:]
	out = append(out,
		"vers:"+strings.ToUpper(scheme)+"/"+cons, "vers:"+strings.ToUpper(scheme[:1])+scheme[1:]+"/"+cons,
		"VERS:"+rest, "Vers:"+rest, "ver:"+rest, "vers;"+rest, "vers"+rest, " vers:"+rest, "vers :"+rest, "vers:/"+cons, "vers:"+scheme, "vers:"+scheme+"/", "vers:"+scheme+"/|", "vers:"+scheme+"/ | ",
		"vers:"+scheme+"//"+cons, "vers:"+scheme+"/*|"+cons, "vers:"+scheme+"/"+cons+"|*", "vers:"+scheme+"/* |"+cons, "vers:"+scheme+"/ *|"+cons, "vers:"+scheme+"/ * |"+cons, "vers:"+scheme+"/"+cons+"| *", "vers:"+scheme+"/"+cons+"|* ", "vers:"+scheme+"/* |>=not a version", "vers:"+scheme+"/*|*", "vers:"+scheme+"/* | *",
	)
	for _, m := range [][2]string{{">=", "=>"}, {"<=", "=<"}, {"!=", "<>"}, {"=", "=="}, {">=", ">>"}, {"<", "<<"}, {">=", "~>"}, {">=", "^"}, {">=", ""}, {"<", ""}, {"!=", "!"}} {
		if strings.Contains(cons, m[0]) {
			out = append(out, "vers:"+scheme+"/"+strings.Replace(cons, m[0], m[1], 1))
		}
	}
	return out
}

// c17Corruptions2 calls f on every TWO-point corruption of seed: each of delete / replace-by-c /
// insert-c at a position i combined with each of them at a later position j.
func c17Corruptions2(seed string, f func(string)) {
	type edit struct {
		pos  int
		kind int // 0 delete, 1 replace, 2 insert
		c    string
	}
	var edits []edit
	for i := 5; i <= len(seed); i++ { // keep the "vers:" prefix (prefix damage is covered by the single-point pass)
		if i < len(seed) {
			edits = append(edits, edit{i, 0, ""})
			for _, c := range c17Sigma {
				edits = append(edits, edit{i, 1, c})
			}
		}
		for _, c := range c17Sigma {
			edits = append(edits, edit{i, 2, c})
		}
	}
	apply := func(s string, e edit) string {
		switch e.kind {
		case 0:
			return s[:e.pos] + s[e.pos+1:]
		case 1:
			return s[:e.pos] + e.c + s[e.pos+1:]
		}
		return s[:e.pos] + e.c + s[e.pos:]
	}
	for a := range edits {
		for b := range edits {
			if edits[b].pos <= edits[a].pos {
				continue
			}
			f(apply(apply(seed, edits[b]), edits[a])) // the later position first: indices stay valid
		}
	}
}

// c17Discriminators: version spellings on which the ecosystems disagree about acceptance or order.
var c17Discriminators = []string{
	"1.0", "1.0.0", "2.0.0", "1.2.3", "1.10.0", "1.9.0", "v1.0.0", "v2.0.0", "1.0~rc1", "1.0.0-alpha", "1.0.0-beta", "1.0.0-rc.1", "1.0.0-rc.2", "1.0.0-10", "1.0.0-2",
	"1:2.0", "1:0.5", "1.0-1", "1.0-2", "1.0a", "1.0b", "1.0_p1", "1.0_rc1", "1.0-r1", "1.0-r2", "1.0.post1", "1.0.dev1", "1.0a1", "1.0rc1", "1!0.5", "1.0+b1",
	"1.0-SNAPSHOT", "1.0-sp1", "1.0-alpha-1", "2.0.0.rc1", "2.0.0.beta", "1.0^git1", "1.0.0.1", "1.0.1", "1", "2", "10", "1.0.0+build", "1.0.0-x.1", "1.0.final", "=1.0.0", "01.0.0", "1.0.0-01",
}

func c17RouteUnit(scheme string) core.Unit {
	return core.Unit{Name: "C17/route/" + scheme, Weight: 8, Run: func(r *core.Result) {
		e := eco.ByName(eco.SchemeEco[scheme])
		type pv struct {
			s string
			v eco.Ver
		}
		// acceptance and sign under every ecosystem, to measure discrimination
		all := eco.All()
		parse := map[string]map[string]eco.Ver{}
		for _, x := range all {
			m := map[string]eco.Ver{}
			for _, s := range c17Discriminators {
				if v, err := eco.SafeParse(x, s); err == nil {
					m[s] = v
				}
			}
			parse[x.Name()] = m
		}
		mine := parse[e.Name()]
		distinguishes := map[string]int{}
		ops := []string{"<", "<=", ">", ">=", "=", "!="}
		for _, a := range c17Discriminators {
			if strings.ContainsAny(a[:1], "<>=!") {
				continue // as a bound the text would be ambiguous with the comparator; used as a probe only
			}
			for _, b := range c17Discriminators {
				va, oka := mine[a]
				vb, okb := mine[b]
				for _, op := range ops {
					rs := "vers:" + scheme + "/" + op + a
					got, errish, pn := versCall(rs, b)
					r.Add("evaluations", 1)
					r.Add("states", 1)
					if pn {
						r.Violate(core.Violation{Property: "C17", Scope: scheme, Kind: "route-panic", Inputs: []string{rs, b}, Expected: "no panic", Got: "panic"})
						continue
					}
					if !oka || !okb {
						if !errish || got {
							r.Violate(core.Violation{Property: "C17", Scope: scheme, Kind: "route-accepts-foreign-version", Inputs: []string{rs, b},
								Expected: fmt.Sprintf("(false, error): %s rejects %q or %q", e.Name(), a, b), Got: fmt.Sprintf("%v err=%v", got, errish)})
						}
						continue
					}
					c, _ := eco.SafeCompare(vb, va)
					want := gen.Sat(op, signOf(c))
					if scheme == "pypi" && pypiIsPre(b) && !pypiIsPre(a) {
						want = false
					}
					r.Add("nontrivial", 1)
					if errish || got != want {
						r.Violate(core.Violation{Property: "C17", Scope: scheme, Kind: "route-order", Inputs: []string{rs, b},
							Expected: fmt.Sprintf("%v (order of %s)", want, e.Name()), Got: fmt.Sprintf("%v err=%v", got, errish)})
					}
				}
				// discrimination bookkeeping
				for _, x := range all {
					if x.Name() == e.Name() {
						continue
					}
					oa, xa := parse[x.Name()][a]
					ob, xb := parse[x.Name()][b]
					if (xa && xb) != (oka && okb) {
						distinguishes[x.Name()]++
						continue
					}
					if xa && xb && oka && okb {
						c1, _ := eco.SafeCompare(vb, va)
						c2, _ := eco.SafeCompare(ob, oa)
						if signOf(c1) != signOf(c2) {
							distinguishes[x.Name()]++
						}
					}
				}
			}
		}
		for _, x := range all {
			if x.Name() != e.Name() {
				r.AddScope(scheme, "pairs_distinguishing_from_"+x.Name(), int64(distinguishes[x.Name()]))
				if distinguishes[x.Name()] == 0 {
					r.Internalf("C17 routing: no discriminating pair separates scheme %s (%s) from ecosystem %s", scheme, e.Name(), x.Name())
				}
			}
		}
		r.Sample("route", map[string]any{"range": "vers:" + scheme + "/<1.0~rc1", "probe": "1.0", "ecosystem": e.Name()})
	}}
}

func c17CorruptUnit(scheme string, lvl int) core.Unit {
	return core.Unit{Name: "C17/corrupt/" + scheme, Weight: 10, Run: func(r *core.Result) {
		probes := []string{versPools[scheme][0][2], versPools[scheme][1][4], versPools[scheme][1][0]}
		seen := map[string]bool{}
		for _, seed := range c17Seeds(scheme, lvl) {
			for _, p := range probes {
				if why := versMustError(seed, p); why != "" {
					r.Internalf("C17 seed %q is not valid for probe %q: %s", seed, p, why)
				}
			}
			for _, cs := range c17Corruptions(seed) {
				if seen[cs] {
					continue
				}
				seen[cs] = true
				r.Add("states", 1)
				for _, p := range append(probes, "not a version", "") {
					why := versMustError(cs, p)
					got, errish, pn := versCall(cs, p)
					r.Add("evaluations", 1)
					if pn {
						r.Violate(core.Violation{Property: "C17", Scope: scheme, Kind: "corrupt-panic", Inputs: []string{cs, p}, Expected: "no panic", Got: "panic"})
						continue
					}
					if why == "" {
						continue
					}
					r.Add("nontrivial", 1)
					r.SetAdd("must_error_reasons", why)
					if !errish || got {
						r.Violate(core.Violation{Property: "C17", Scope: scheme, Kind: "corrupt-accepted:" + why, Inputs: []string{cs, p},
							Expected: "(false, error): " + why, Got: fmt.Sprintf("%v err=%v", got, errish)})
					}
				}
			}
		}
		if lvl > 0 {
			// thorough: every two-point corruption of the first seed, first probe and an invalid probe
			seed := c17Seeds(scheme, lvl)[0]
			c17Corruptions2(seed, func(cs string) {
				r.Add("states", 1)
				for _, p := range []string{probes[0], "not a version"} {
					why := versMustError(cs, p)
					got, errish, pn := versCall(cs, p)
					r.Add("evaluations", 1)
					if pn {
						r.Violate(core.Violation{Property: "C17", Scope: scheme, Kind: "corrupt-panic", Inputs: []string{cs, p}, Expected: "no panic", Got: "panic"})
						continue
					}
					if why == "" {
						continue
					}
					r.Add("nontrivial", 1)
					if !errish || got {
						r.Violate(core.Violation{Property: "C17", Scope: scheme, Kind: "corrupt-accepted:" + why, Inputs: []string{cs, p},
							Expected: "(false, error): " + why, Got: fmt.Sprintf("%v err=%v", got, errish)})
					}
				}
			})
		}
		r.Sample("corruption", map[string]any{"seed": c17Seeds(scheme, lvl)[0], "example": c17Corruptions(c17Seeds(scheme, lvl)[0])[7]})
	}}
}

func init() {
	core.Register(&core.Prop{
		ID:    "C17",
		Title: "VERS validates its input and routes each scheme to the right ecosystem",
		Units: func(tier string) []core.Unit {
			var us []core.Unit
			for _, s := range eco.Schemes {
				us = append(us, c17CorruptUnit(s, level(tier)), c17RouteUnit(s))
			}
			// near-miss scheme names
			us = append(us, core.Unit{Name: "C17/near-miss-schemes", Weight: 1, Run: func(r *core.Result) {
				for _, s := range []string{"debian", "semver", "go", "gomod", "rubygems", "python", "pip", "crates", "apk", "NPM", "Npm", "np", "npmm", "deb ", "", "alpm", "composer", "conan", "hex", "github", "apache", "cran", "gentoo", "mattermost", "ebuild", "intdot", "none", "all"} {
					rs := "vers:" + s + "/>=1.0.0"
					got, errish, pn := versCall(rs, "1.5.0")
					r.Add("evaluations", 1)
					r.Add("states", 1)
					r.Add("nontrivial", 1)
					if pn || !errish || got {
						r.Violate(core.Violation{Property: "C17", Scope: "near-miss", Kind: "corrupt-accepted:unsupported-scheme", Inputs: []string{rs, "1.5.0"}, Expected: "(false, error)", Got: fmt.Sprintf("%v err=%v panic=%v", got, errish, pn)})
					}
				}
			}})
			return us
		},
		Replay: func(v *core.Violation) (bool, string) {
			got, errish, pn := versCall(v.Inputs[0], v.Inputs[1])
			d := fmt.Sprintf("%v err=%v panic=%v", got, errish, pn)
			switch {
			case strings.HasSuffix(v.Kind, "-panic"):
				return pn, d
			case strings.HasPrefix(v.Kind, "corrupt-accepted"), v.Kind == "route-accepts-foreign-version":
				return pn || !errish || got, d
			case v.Kind == "route-order":
				scheme, ops, vs, ok := parseVersRange(v.Inputs[0])
				if !ok || len(ops) != 1 {
					return false, "unparsable"
				}
				e := eco.ByName(eco.SchemeEco[scheme])
				va, e1 := eco.SafeParse(e, vs[0])
				vb, e2 := eco.SafeParse(e, v.Inputs[1])
				if e1 != nil || e2 != nil {
					return false, "no longer accepted"
				}
				c, _ := eco.SafeCompare(vb, va)
				want := gen.Sat(ops[0], signOf(c))
				if scheme == "pypi" && pypiIsPre(v.Inputs[1]) && !pypiIsPre(vs[0]) {
					want = false
				}
				return pn || errish || got != want, d + fmt.Sprintf(" want %v", want)
			}
			return false, d
		},
		Finalize: func(r *core.Result, tier string) map[string]any {
			return map[string]any{
				"states":                        r.Counters["states"],
				"transitions":                   r.Counters["evaluations"],
				"traces_validated_against_impl": r.Counters["evaluations"],
				"evaluations":                   r.Counters["evaluations"],
				"distinct_nontrivial":           r.Counters["nontrivial"],
			}
		},
		Rule:        "validation: for 6 (quick) / 12 (thorough) valid seed ranges per scheme (three of them decided for the first probe by their first constraint, so that corruptions further right test validate-before-answer), EVERY single-point corruption - delete at each position, replace by and insert each character of {a z A 0 9 : / | * = < > ! . - SP TAB NUL e-acute ~ DEL 0x1f 0x80} at each position - plus scheme case changes, operator manglings and prefix damage (thorough: also EVERY two-point corruption of the first seed behind the prefix), each with 5 probes (two releases, a pre-release spelling, an invalid and an empty string); a reference classifier (Appendix A.9) decides which results must be (false, error). routing: for each scheme every (comparator, bound, probe) over 45 discriminating version spellings must equal the scheme's ecosystem's own Compare and must be an error iff that ecosystem rejects a version; the run also proves that for every other ecosystem at least one pair distinguishes it (internal error otherwise). 28 near-miss scheme names must be rejected. distinct_nontrivial = cases with a definite expectation.",
		Assumptions: []string{"version validity in rule 9 of the classifier is the scheme's ecosystem parser itself (C17 states it that way)", "the lone '*' range is not covered, as stated"},
	})
}
