package props

import (
	"fmt"
	"regexp"
	"strings"

	"golang.org/x/mod/semver"

	"verif/engine/core"
	"verif/engine/eco"
	"verif/engine/gen"
	"verif/engine/ref"
)

var c08LongDigits = regexp.MustCompile(`[0-9]{19}`)

func c08Lists(lvl int) []string {
	I := []string{"0", "1", "2", "3", "10", "dev", "v1", "65535", "65536", "65537", "131072", "4294967296", "4294967297", "99999999999999999", "a", "alpha", "beta", "rc", "A", "Alpha", "a-b", "1-2", "2-3", "-5", "-12", "-", "x-", "0a", "00a", "1a", "x", "rc9", "rc10", "alpha-2", "alpha-10", "9007199254740992", "9007199254740993"}
	var out []string
	out = append(out, "")
	for _, a := range I {
		out = append(out, a)
	}
	for _, a := range I {
		for _, b := range I {
			out = append(out, a+"."+b)
		}
	}
	small := []string{"0", "1", "a", "-"}
	maxLen := 4
	if lvl > 0 {
		maxLen = 6
		J := []string{"0", "1", "10", "a", "alpha", "-5", "a-b", "99999999999999999"}
		for _, a := range J {
			for _, b := range J {
				for _, c := range J {
					out = append(out, a+"."+b+"."+c)
				}
			}
		}
	}
	// long lists (5-8 identifiers) over {0,1,a}: fixed-size scratch arrays
	for L := 5; L <= 8; L++ {
		for _, s := range gen.AllStrings([]string{"0", "1"}, L) {
			if len(s) == L {
				out = append(out, strings.Join(strings.Split(s, ""), "."))
			}
		}
		out = append(out, strings.TrimSuffix(strings.Repeat("a.", L), "."), strings.TrimSuffix(strings.Repeat("1.", L-1), ".")+".a")
	}
	// very long lists (9, 17, 33 identifiers): fixed-size buffers of the next sizes up
	for _, L := range []int{9, 17, 33} {
		ones := strings.TrimSuffix(strings.Repeat("1.", L), ".")
		out = append(out, ones, ones[:len(ones)-1]+"2", ones[:len(ones)-1]+"a", strings.TrimSuffix(strings.Repeat("a.", L), "."), strings.TrimSuffix(strings.Repeat("1.", L-1), "."))
	}
	for _, s := range gen.AllStrings(small, maxLen) {
		if len(s) >= 3 {
			out = append(out, strings.Join(strings.Split(s, ""), "."))
		}
	}
	return out
}

func c08Candidates(name string, lvl int) []string {
	cores := []string{"1.0.0", "1.0.1", "1.1.0", "2.0.0", "0.0.0"}
	switch name {
	case "golang":
		cores = []string{"v1.0.0", "v1.0.1", "v1.1.0", "v2.0.0", "v0.0.0", "1.0.0"}
	case "npm":
		cores = append(cores, "v1.0.0")
	case "nuget":
		cores = append(cores, "1", "1.0", "1.0.0.0", "1.0.0.1", "2", "1.1")
	case "hex":
		cores = append(cores, "1.0", "1.1")
	}
	var out []string
	lists := c08Lists(lvl)
	for ci, c := range cores {
		for li, l := range lists {
			if ci >= 2 && li > 19 && lvl == 0 {
				break // full list product only on two cores; short lists on the others
			}
			if ci >= 3 && li > 19 {
				break
			}
			s := c
			if l != "" {
				s += "-" + l
			}
			out = append(out, s)
			if li < 8 {
				out = append(out, s+"+b", s+"+1.x-y")
			}
		}
	}
	if name == "golang" {
		ts := []string{"20200101000000", "20210101000000"}
		for _, t := range ts {
			for _, rev := range []string{"abcdef123456"} {
				out = append(out,
					"v1.0.0-"+t+"-"+rev, "v2.0.0-"+t+"-"+rev, "v0.0.0-"+t+"-"+rev,
					"v1.0.0-rc.0."+t+"-"+rev, "v1.0.0-alpha.0."+t+"-"+rev, "v1.0.1-rc1.0."+t+"-"+rev, "v1.0.0-0.0."+t+"-"+rev,
					"v1.0.1-0."+t+"-"+rev, "v1.1.0-0."+t+"-"+rev, "v1.0.0-0."+t+"-"+rev, "v2.0.0-0."+t+"-"+rev)
			}
		}
		out = append(out, "v1.2.3-20200101000000-abcdef123456", "v1.1.0-20200101000000-abcdef123456", "v1.0.1-20200101000000-abcdef123456", "v1.0.0-rc.0", "v1.0.0-rc.1", "v1.0.0-rc.0.1", "v1.0.0-0", "v1.0.1-0", "v1.0.0-pseudo", "v1.0.0+incompatible", "v2.0.0+incompatible")
	}
	out = append(out, gen.SlotFamily(name)...)
	return out
}

func c08Spec(name string) *refSpec {
	s := &refSpec{Prop: "C08", Eco: name, Blocks: 4,
		Candidates: func(lvl int) []string { return c08Candidates(name, lvl) },
		Valid: func(x string) bool {
			_, _, ok := ref.SemverParts(x)
			if !ok {
				return false
			}
			// the property quantifies over digits-only identifiers of up to 18 digits
			if i := strings.Index(x, "-"); i >= 0 && c08LongDigits.MatchString(strings.SplitN(x[i:], "+", 2)[0]) {
				return false
			}
			if name == "golang" {
				v := x
				if !strings.HasPrefix(v, "v") {
					v = "v" + v
				}
				return semver.IsValid(v)
			}
			return true
		},
		Cmp: ref.SemverCompare,
	}
	if name == "golang" {
		s.Cmp = func(a, b string) (int, string) {
			va, vb := a, b
			if !strings.HasPrefix(va, "v") {
				va = "v" + va
			}
			if !strings.HasPrefix(vb, "v") {
				vb = "v" + vb
			}
			c := semver.Compare(va, vb)
			_, tag := ref.SemverCompare(a, b)
			return c, tag
		}
	}
	return s
}

func init() {
	names := []string{"semver", "npm", "cargo", "hex", "golang", "nuget"}
	var specs []*refSpec
	for _, n := range names {
		specs = append(specs, c08Spec(n))
	}
	registerRef("C08", "SemVer-family ecosystems implement SemVer 2.0.0 precedence", specs,
		"per ecosystem: cores x every pre-release identifier list of length 0..2 over a 21-identifier alphabet (digits incl. 0, multi-digit, 17 digits; alphanumerics; mixed case; hyphen-containing and hyphen-leading) plus every list of length 3..4 (thorough: 6) over {0 1 a -} (thorough: all length-3 lists over 8 identifiers) x build-metadata variants; golang additionally the three pseudo-version forms; all ordered pairs against SemVer 2.0.0 section 11 (golang: golang.org/x/mod/semver itself). Strict semver acceptance: all strings <= L over {0 1 a . - +}, a valid core followed by every tail of <= 5 such characters (as pre-release, as build, and raw) and every core of <= 7 characters over {0 1 9 .}, against the official SemVer grammar. distinct_nontrivial = pairs the reference orders strictly.",
		[]string{"NuGet identifiers that differ only in letter case are not in the alphabet's claim (case-insensitivity not claimed) - pairs differing only by case are skipped for nuget", "numbers beyond 18 digits are outside the claim"},
		[]string{"engine/ref/semver.go (SemVer 2.0.0 section 11 and the semver.org grammar)", "golang.org/x/mod/semver v0.22.0 linked into the checker (oracle for golang)", "node-semver 7.6.2 replay: conformance/node_semver.sh"},
		"conformance/node_semver.sh")
	p := core.Get("C08")
	inner := p.Units
	p.Units = func(tier string) []core.Unit {
		us := inner(tier)
		us = append(us, core.Unit{Name: "C08/semver/acceptance", Weight: 5, Run: func(r *core.Result) {
			e := eco.ByName("semver")
			L := 7
			if tier == "thorough" {
				L = 9
			}
			all := gen.AllStrings(gen.Chars("01a.-+"), L)
			// a valid core followed by every tail of up to 5 characters (pre-release and build parts
			// of the lengths the plain enumeration cannot reach), and every core of up to 7 characters
			for _, t := range gen.AllStrings(gen.Chars("01a.-+"), 5) {
				all = append(all, "1.0.0"+t, "1.2.3-"+t, "1.2.3+"+t)
			}
			for _, c := range gen.AllStrings(gen.Chars("019."), 7) {
				all = append(all, c+"-a", c)
			}
			all = gen.Uniq(all)
			r.Add("states", int64(len(all)))
			for _, s := range all {
				_, err := eco.SafeParse(e, s)
				r.Add("evaluations", 1)
				want := ref.StrictSemverValid(s)
				if want {
					r.Add("nontrivial", 1)
				}
				if (err == nil) != want {
					r.Violate(core.Violation{Property: "C08", Scope: "semver", Kind: "acceptance", Inputs: []string{s},
						Expected: fmt.Sprintf("accepted=%v (SemVer 2.0.0 grammar)", want), Got: fmt.Sprintf("accepted=%v", err == nil)})
				}
			}
			r.Sample("acceptance", map[string]any{"string": "1.0.0-0a.-", "valid": ref.StrictSemverValid("1.0.0-0a.-")})
		}})
		return us
	}
	innerReplay := p.Replay
	p.Replay = func(v *core.Violation) (bool, string) {
		if v.Kind == "acceptance" {
			_, err := eco.SafeParse(eco.ByName("semver"), v.Inputs[0])
			want := ref.StrictSemverValid(v.Inputs[0])
			return (err == nil) != want, fmt.Sprintf("accepted=%v want %v", err == nil, want)
		}
		return innerReplay(v)
	}
	// nuget: skip pairs that differ only in letter case somewhere (not claimed)
	for _, s := range specs {
		if s.Eco == "nuget" {
			s.PairOK = func(a, b string) bool {
				return !(strings.EqualFold(a, b) && a != b) && !caseOnlyIdentifierDiff(a, b)
			}
		}
	}
}

// caseOnlyIdentifierDiff: some pre-release identifier position differs only by letter case.
func caseOnlyIdentifierDiff(a, b string) bool {
	_, pa, _ := ref.SemverParts(a)
	_, pb, _ := ref.SemverParts(b)
	for i := 0; i < len(pa) && i < len(pb); i++ {
		if pa[i] != pb[i] && strings.EqualFold(pa[i], pb[i]) {
			return true
		}
	}
	return false
}
