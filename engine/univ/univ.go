// Package univ builds the per-ecosystem universes U_E (accepted version strings).
package univ

import (
	"verif/engine/eco"
	"verif/engine/gen"
)

type Universe struct {
	Eco  eco.Eco
	Strs []string
	Vers []eco.Ver
	// Vers0 holds the value of a FIRST parse of each string; Vers comes from a second,
	// independent parse (a parser that memoises and then damages its memo shows on re-parsing)
	Vers0      []eco.Ver
	Candidates int
	Panics     []string
}

var cache = map[string]*Universe{}

// Versions builds (and caches) U_E for a level: every candidate the real parser accepts.
func Versions(e eco.Eco, level int) *Universe {
	key := e.Name() + string(rune('0'+level))
	if u, ok := cache[key]; ok {
		return u
	}
	cands := gen.Uniq(gen.Versions(e.Name(), level))
	u := &Universe{Eco: e, Candidates: len(cands)}
	for _, s := range cands {
		v, err := eco.SafeParse(e, s)
		if err != nil {
			if eco.IsPanic(err) {
				u.Panics = append(u.Panics, s)
			}
			continue
		}
		v2, err2 := eco.SafeParse(e, s)
		if err2 != nil {
			v2 = v
		}
		u.Strs = append(u.Strs, s)
		u.Vers0 = append(u.Vers0, v)
		u.Vers = append(u.Vers, v2)
	}
	gen.S.States += int64(len(cands))
	cache[key] = u
	return u
}

// FromStrings parses a fixed list, keeping the accepted ones.
func FromStrings(e eco.Eco, strs []string) *Universe {
	u := &Universe{Eco: e, Candidates: len(strs)}
	for _, s := range gen.Uniq(strs) {
		v, err := eco.SafeParse(e, s)
		if err != nil {
			continue
		}
		u.Strs = append(u.Strs, s)
		u.Vers = append(u.Vers, v)
	}
	return u
}
