package ref

// VERS containment (DESIGN.md Appendix A.8). Constraints are given sorted by version
// (pairwise distinct); cmp(i) is the sign of Compare(probe, version_i).

type VersConstraint struct {
	Op string
}

// VersShapeValid reports whether the bound subsequence (< <= > >=) alternates as the spec
// requires: optional leading upper bound, then lower/upper pairs, optional trailing lower.
func VersShapeValid(ops []string) bool {
	var b []string
	for _, o := range ops {
		if o != "=" && o != "!=" {
			b = append(b, o)
		}
	}
	prevUpper := false
	for i, o := range b {
		upper := o == "<" || o == "<="
		if i > 0 && upper == prevUpper {
			return false
		}
		prevUpper = upper
	}
	return true
}

func satSign(op string, c int) bool {
	switch op {
	case "<":
		return c < 0
	case "<=":
		return c <= 0
	case ">":
		return c > 0
	case ">=":
		return c >= 0
	case "=":
		return c == 0
	case "!=":
		return c != 0
	}
	return false
}

// VersContains is the reference membership; cmp[i] = sign(Compare(probe, version_i)).
// The returned tag names the deciding rule.
func VersContains(ops []string, cmp []int) (bool, string) {
	onlyNe := true
	for i, o := range ops {
		if o == "!=" && cmp[i] == 0 {
			return false, "excluded"
		}
		if o != "!=" {
			onlyNe = false
		}
	}
	for i, o := range ops {
		if o == "=" && cmp[i] == 0 {
			return true, "equal-point"
		}
	}
	var bi []int
	for i, o := range ops {
		if o != "=" && o != "!=" {
			bi = append(bi, i)
		}
	}
	if len(bi) == 0 {
		if onlyNe {
			return true, "only-exclusions"
		}
		return false, "points-only"
	}
	first, last := bi[0], bi[len(bi)-1]
	if (ops[first] == "<" || ops[first] == "<=") && satSign(ops[first], cmp[first]) {
		return true, "leading-upper"
	}
	if (ops[last] == ">" || ops[last] == ">=") && satSign(ops[last], cmp[last]) {
		return true, "trailing-lower"
	}
	for k := 0; k+1 < len(bi); k++ {
		c, n := bi[k], bi[k+1]
		if (ops[c] == ">" || ops[c] == ">=") && (ops[n] == "<" || ops[n] == "<=") && satSign(ops[c], cmp[c]) && satSign(ops[n], cmp[n]) {
			return true, "pair"
		}
	}
	return false, "outside"
}
