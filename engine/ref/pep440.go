package ref

import (
	"regexp"
	"strings"
)

// PEP 440 on C09's grammar: [N!]N(.N)*[{a|b|rc|alpha|beta|c}N][.postN|.revN|.rN][.devN][+local],
// optional dot before each marker. Port of packaging.version._cmpkey.
var pep440Shape = regexp.MustCompile(`^(?:([0-9]+)!)?([0-9]+(?:\.[0-9]+)*)(?:\.?(a|b|rc|alpha|beta|c)([0-9]+))?(?:\.?(post|rev|r)([0-9]+))?(?:\.?(dev)([0-9]+))?(?:\+([a-z0-9]+(?:[-_.][a-z0-9]+)*))?$`)

type Pep440 struct {
	Epoch           string
	Release         []string
	PreKind         string // "", a, b, rc
	PreN            string
	HasPost, HasDev bool
	PostN, DevN     string
	Local           []string
	HasLocal        bool
}

var pep440Memo = map[string]*Pep440{}

func Pep440Parse(s string) (*Pep440, bool) {
	if p, hit := pep440Memo[s]; hit {
		return p, p != nil
	}
	p, ok := pep440ParseUncached(s)
	if len(pep440Memo) < 1<<20 {
		if ok {
			pep440Memo[s] = p
		} else {
			pep440Memo[s] = nil
		}
	}
	return p, ok
}

func pep440ParseUncached(s string) (*Pep440, bool) {
	m := pep440Shape.FindStringSubmatch(strings.TrimSpace(s))
	if m == nil {
		return nil, false
	}
	p := &Pep440{Epoch: m[1], Release: strings.Split(m[2], ".")}
	if p.Epoch == "" {
		p.Epoch = "0"
	}
	switch m[3] {
	case "a", "alpha":
		p.PreKind = "a"
	case "b", "beta":
		p.PreKind = "b"
	case "rc", "c":
		p.PreKind = "rc"
	}
	p.PreN = m[4]
	if m[5] != "" {
		p.HasPost, p.PostN = true, m[6]
	}
	if m[7] != "" {
		p.HasDev, p.DevN = true, m[8]
	}
	if m[9] != "" {
		p.HasLocal = true
		p.Local = regexp.MustCompile(`[-_.]`).Split(m[9], -1)
	}
	return p, true
}

func Pep440Valid(s string) bool { _, ok := Pep440Parse(s); return ok }

func stripTrailingZeros(r []string) []string {
	n := len(r)
	for n > 0 && strings.TrimLeft(r[n-1], "0") == "" {
		n--
	}
	return r[:n]
}

// Pep440Compare implements the _cmpkey order.
func Pep440Compare(sa, sb string) (int, string) {
	a, _ := Pep440Parse(sa)
	b, _ := Pep440Parse(sb)
	if c := cmpDecimal(a.Epoch, b.Epoch); c != 0 {
		return c, "epoch"
	}
	ra, rb := stripTrailingZeros(a.Release), stripTrailingZeros(b.Release)
	for i := 0; i < len(ra) || i < len(rb); i++ {
		// tuples compare lexicographically: a shorter tuple that is a prefix is smaller
		if i >= len(ra) {
			return -1, "release"
		}
		if i >= len(rb) {
			return 1, "release"
		}
		if c := cmpDecimal(ra[i], rb[i]); c != 0 {
			return c, "release"
		}
	}
	// pre key: -inf for dev-only, +inf when absent, else (rank, n)
	preKey := func(p *Pep440) (int, string) {
		switch {
		case p.PreKind == "" && !p.HasPost && p.HasDev:
			return -1, ""
		case p.PreKind == "":
			return 3, ""
		case p.PreKind == "a":
			return 0, p.PreN
		case p.PreKind == "b":
			return 1, p.PreN
		default:
			return 2, p.PreN
		}
	}
	ka, na := preKey(a)
	kb, nb := preKey(b)
	if ka != kb {
		tag := "pre:phase"
		if ka == -1 || kb == -1 {
			tag = "pre:dev-only-vs-other"
		}
		return sign(ka - kb), tag
	}
	if ka >= 0 && ka <= 2 {
		if c := cmpDecimal(na, nb); c != 0 {
			return c, "pre:number"
		}
	}
	// post: -inf when absent
	switch {
	case a.HasPost != b.HasPost:
		if a.HasPost {
			return 1, "post:presence"
		}
		return -1, "post:presence"
	case a.HasPost:
		if c := cmpDecimal(a.PostN, b.PostN); c != 0 {
			return c, "post:number"
		}
	}
	// dev: +inf when absent
	switch {
	case a.HasDev != b.HasDev:
		if a.HasDev {
			return -1, "dev:presence"
		}
		return 1, "dev:presence"
	case a.HasDev:
		if c := cmpDecimal(a.DevN, b.DevN); c != 0 {
			return c, "dev:number"
		}
	}
	// local: -inf when absent; numeric segments above alphabetic; shorter prefix smaller
	switch {
	case a.HasLocal != b.HasLocal:
		if a.HasLocal {
			return 1, "local:presence"
		}
		return -1, "local:presence"
	case a.HasLocal:
		for i := 0; i < len(a.Local) || i < len(b.Local); i++ {
			if i >= len(a.Local) {
				return -1, "local:length"
			}
			if i >= len(b.Local) {
				return 1, "local:length"
			}
			x, y := a.Local[i], b.Local[i]
			dx, dy := allDigits(x), allDigits(y)
			switch {
			case dx && dy:
				if c := cmpDecimal(x, y); c != 0 {
					return c, "local:segment"
				}
			case dx:
				return 1, "local:segment"
			case dy:
				return -1, "local:segment"
			default:
				if c := strings.Compare(x, y); c != 0 {
					return sign(c), "local:segment"
				}
			}
		}
	}
	return 0, "equal"
}
