package ref

import (
	"regexp"
	"strings"
)

var apkWellFormed = regexp.MustCompile(`^((?:0|[1-9][0-9]*)(?:\.(?:0|[1-9][0-9]*))*)([a-z]?)((?:_(?:alpha|beta|pre|rc|cvs|svn|git|hg|p)[0-9]*)*)(?:-r([0-9]+))?$`)

type Apk struct {
	Nums   []string
	Letter string
	Suf    [][2]string // name, number ("" = 0)
	Rev    string
}

// ApkParse parses C14's well-formed subset (no leading zeros, known suffix names, no ~hash).
var apkMemo = map[string]*Apk{}

func ApkParse(s string) (*Apk, bool) {
	if p, hit := apkMemo[s]; hit {
		return p, p != nil
	}
	p, ok := apkParseUncached(s)
	if len(apkMemo) < 1<<20 {
		if ok {
			apkMemo[s] = p
		} else {
			apkMemo[s] = nil
		}
	}
	return p, ok
}

func apkParseUncached(s string) (*Apk, bool) {
	m := apkWellFormed.FindStringSubmatch(strings.TrimSpace(s))
	if m == nil {
		return nil, false
	}
	a := &Apk{Nums: strings.Split(m[1], "."), Letter: m[2], Rev: m[4]}
	if m[3] != "" {
		for _, p := range strings.Split(m[3][1:], "_") {
			i := len(p)
			for i > 0 && isDigit(p[i-1]) {
				i--
			}
			a.Suf = append(a.Suf, [2]string{p[:i], p[i:]})
		}
	}
	return a, true
}

func ApkValid(s string) bool { _, ok := ApkParse(s); return ok }

var apkRank = map[string]int{"alpha": -4, "beta": -3, "pre": -2, "rc": -1, "cvs": 1, "svn": 2, "git": 3, "hg": 4, "p": 5}

// ApkCompare is the apk-tools order on the well-formed subset (equal component counts).
func ApkCompare(sa, sb string) (int, string) {
	a, _ := ApkParse(sa)
	b, _ := ApkParse(sb)
	for i := 0; i < len(a.Nums) && i < len(b.Nums); i++ {
		if c := cmpDecimal(a.Nums[i], b.Nums[i]); c != 0 {
			return c, "numeric"
		}
	}
	if c := strings.Compare(a.Letter, b.Letter); c != 0 { // "" < "a" < ... < "z"
		return sign(c), "letter"
	}
	for i := 0; i < len(a.Suf) || i < len(b.Suf); i++ {
		switch {
		case i >= len(a.Suf):
			// b has an additional suffix: pre-type makes b older (a newer), post-type makes b newer
			if apkRank[b.Suf[i][0]] < 0 {
				return 1, "suffix:extra-pre"
			}
			return -1, "suffix:extra-post"
		case i >= len(b.Suf):
			if apkRank[a.Suf[i][0]] < 0 {
				return -1, "suffix:extra-pre"
			}
			return 1, "suffix:extra-post"
		}
		ra, rb := apkRank[a.Suf[i][0]], apkRank[b.Suf[i][0]]
		if ra != rb {
			return sign(ra - rb), "suffix:rank"
		}
		if c := cmpDecimal(a.Suf[i][1], b.Suf[i][1]); c != 0 {
			return c, "suffix:number"
		}
	}
	if c := cmpDecimal(a.Rev, b.Rev); c != 0 {
		return c, "revision"
	}
	return 0, "equal"
}

// ApkSameArity: C14 claims only pairs with the same number of numeric components.
func ApkSameArity(sa, sb string) bool {
	a, ok1 := ApkParse(sa)
	b, ok2 := ApkParse(sb)
	return ok1 && ok2 && len(a.Nums) == len(b.Nums)
}
