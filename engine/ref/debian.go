// Package ref holds the boring reference models (DESIGN.md Appendix A). Each comparison returns
// the sign and a tag naming the rule that decided it, which is what known-finding classes key on.
package ref

import (
	"strings"
)

func isDigit(c byte) bool { return c >= '0' && c <= '9' }
func isAlpha(c byte) bool { return (c >= 'a' && c <= 'z') || (c >= 'A' && c <= 'Z') }
func sign(x int) int {
	if x < 0 {
		return -1
	}
	if x > 0 {
		return 1
	}
	return 0
}

// DebianSplit splits [epoch:]upstream[-revision] the dpkg way.
func DebianSplit(s string) (epoch, upstream, revision string, hasRev bool) {
	s = strings.TrimSpace(s)
	if i := strings.Index(s, ":"); i >= 0 {
		epoch, s = s[:i], s[i+1:]
	}
	if i := strings.LastIndex(s, "-"); i >= 0 {
		return epoch, s[:i], s[i+1:], true
	}
	return epoch, s, "", false
}

// DebianValid is dpkg's validity (lib/dpkg/parsehelp.c parseversion), on the trimmed string.
func DebianValid(s string) bool {
	s = strings.TrimSpace(s)
	if s == "" {
		return false
	}
	hasEpoch := strings.Contains(s, ":")
	epoch, up, rev, hasRev := DebianSplit(s)
	if hasEpoch {
		if epoch == "" {
			return false
		}
		for i := 0; i < len(epoch); i++ {
			if !isDigit(epoch[i]) {
				return false
			}
		}
		if len(strings.TrimLeft(epoch, "0")) > 9 { // dpkg: epoch must fit in int
			return false
		}
	}
	if up == "" || !isDigit(up[0]) {
		return false
	}
	for i := 0; i < len(up); i++ {
		c := up[i]
		if !(isDigit(c) || isAlpha(c) || c == '.' || c == '+' || c == '~' || c == '-') {
			return false
		}
	}
	if hasRev {
		if rev == "" {
			return false
		}
		for i := 0; i < len(rev); i++ {
			c := rev[i]
			if !(isDigit(c) || isAlpha(c) || c == '.' || c == '+' || c == '~') {
				return false
			}
		}
	}
	return true
}

func debOrder(c byte, end bool) int {
	switch {
	case end, isDigit(c):
		return 0
	case isAlpha(c):
		return int(c)
	case c == '~':
		return -1
	default:
		return int(c) + 256
	}
}

func debClass(c byte, end bool) string {
	switch {
	case end:
		return "end"
	case isDigit(c):
		return "digit"
	case isAlpha(c):
		return "letter"
	case c == '~':
		return "tilde"
	default:
		return "punct"
	}
}

// Verrevcmp is dpkg's verrevcmp with a decision tag.
func Verrevcmp(a, b string) (int, string) {
	i, j := 0, 0
	for i < len(a) || j < len(b) {
		for (i < len(a) && !isDigit(a[i])) || (j < len(b) && !isDigit(b[j])) {
			var ca, cb byte
			ea, eb := i >= len(a), j >= len(b)
			if !ea {
				ca = a[i]
			}
			if !eb {
				cb = b[j]
			}
			ac, bc := debOrder(ca, ea), debOrder(cb, eb)
			if ac != bc {
				x, y := debClass(ca, ea), debClass(cb, eb)
				if x > y {
					x, y = y, x
				}
				return sign(ac - bc), "nondigit:" + x + "-vs-" + y
			}
			i++
			j++
		}
		for i < len(a) && a[i] == '0' {
			i++
		}
		for j < len(b) && b[j] == '0' {
			j++
		}
		si, sj := i, j
		firstDiff := 0
		for i < len(a) && isDigit(a[i]) && j < len(b) && isDigit(b[j]) {
			if firstDiff == 0 {
				firstDiff = int(a[i]) - int(b[j])
			}
			i++
			j++
		}
		big := ""
		if i-si > 19 || j-sj > 19 {
			big = "-big"
		}
		if i < len(a) && isDigit(a[i]) {
			return 1, "digit:length" + big
		}
		if j < len(b) && isDigit(b[j]) {
			return -1, "digit:length" + big
		}
		if firstDiff != 0 {
			return sign(firstDiff), "digit:value" + big
		}
	}
	return 0, "equal"
}

func cmpDecimal(a, b string) int {
	a, b = strings.TrimLeft(a, "0"), strings.TrimLeft(b, "0")
	if len(a) != len(b) {
		return sign(len(a) - len(b))
	}
	return sign(strings.Compare(a, b))
}

// DebianCompare is dpkg_version_compare.
func DebianCompare(a, b string) (int, string) {
	ea, ua, ra, _ := DebianSplit(a)
	eb, ub, rb, _ := DebianSplit(b)
	if c := cmpDecimal(ea, eb); c != 0 {
		return c, "epoch"
	}
	if c, t := Verrevcmp(ua, ub); c != 0 {
		return c, "upstream:" + t
	}
	c, t := Verrevcmp(ra, rb)
	if c != 0 {
		return c, "revision:" + t
	}
	return 0, "equal"
}
