package ref

import (
	"regexp"
	"strings"
)

var semverShape = regexp.MustCompile(`^[v=]{0,2}([0-9]+(?:\.[0-9]+){0,3})(?:-([0-9A-Za-z-]+(?:\.[0-9A-Za-z-]+)*))?(?:\+([0-9A-Za-z-]+(?:\.[0-9A-Za-z-]+)*))?$`)

// SemverParts splits a SemVer-shaped string (optional v/= prefix, 1-4 numeric components).
type semverParsed struct {
	core, pre []string
	ok        bool
}

var semverMemo = map[string]semverParsed{}

func SemverParts(s string) (core []string, pre []string, ok bool) {
	if p, hit := semverMemo[s]; hit {
		return p.core, p.pre, p.ok
	}
	defer func() {
		if len(semverMemo) < 1<<20 {
			semverMemo[s] = semverParsed{core, pre, ok}
		}
	}()
	m := semverShape.FindStringSubmatch(strings.TrimSpace(s))
	if m == nil {
		return nil, nil, false
	}
	core = strings.Split(m[1], ".")
	if m[2] != "" {
		pre = strings.Split(m[2], ".")
	}
	return core, pre, true
}

func allDigits(s string) bool {
	if s == "" {
		return false
	}
	for i := 0; i < len(s); i++ {
		if !isDigit(s[i]) {
			return false
		}
	}
	return true
}

var signedIntLike = regexp.MustCompile(`^[-+][0-9]+$`)

func idFlags(a, b string) string {
	f := ""
	if signedIntLike.MatchString(a) || signedIntLike.MatchString(b) {
		f += "[signed-int-like]"
	}
	if (allDigits(a) && len(strings.TrimLeft(a, "0")) > 18) || (allDigits(b) && len(strings.TrimLeft(b, "0")) > 18) {
		f += "[big]"
	}
	if (allDigits(a) && len(a) > 1 && a[0] == '0') || (allDigits(b) && len(b) > 1 && b[0] == '0') {
		f += "[leading-zero]"
	}
	return f
}

// SemverComparePre is SemVer 2.0.0 section 11.4 on pre-release identifier lists.
func SemverComparePre(a, b []string) (int, string) {
	if len(a) == 0 && len(b) == 0 {
		return 0, "equal"
	}
	if len(a) == 0 {
		return 1, "pre-vs-release"
	}
	if len(b) == 0 {
		return -1, "pre-vs-release"
	}
	for i := 0; i < len(a) && i < len(b); i++ {
		x, y := a[i], b[i]
		if x == y {
			continue
		}
		dx, dy := allDigits(x), allDigits(y)
		switch {
		case dx && dy:
			if c := cmpDecimal(x, y); c != 0 {
				return c, "pre:numeric-vs-numeric" + idFlags(x, y)
			}
		case dx:
			return -1, "pre:numeric-vs-alnum" + idFlags(x, y)
		case dy:
			return 1, "pre:numeric-vs-alnum" + idFlags(x, y)
		default:
			return sign(strings.Compare(x, y)), "pre:alnum-vs-alnum" + idFlags(x, y)
		}
	}
	if len(a) != len(b) {
		return sign(len(a) - len(b)), "pre:length"
	}
	return 0, "equal"
}

// SemverCompare orders two SemVer-shaped strings (missing core components count as 0).
func SemverCompare(a, b string) (int, string) {
	ca, pa, _ := SemverParts(a)
	cb, pb, _ := SemverParts(b)
	for i := 0; i < 4; i++ {
		x, y := "0", "0"
		if i < len(ca) {
			x = ca[i]
		}
		if i < len(cb) {
			y = cb[i]
		}
		if c := cmpDecimal(x, y); c != 0 {
			big := ""
			if len(strings.TrimLeft(x, "0")) > 18 || len(strings.TrimLeft(y, "0")) > 18 {
				big = "[big]"
			}
			return c, "core" + big
		}
	}
	return SemverComparePre(pa, pb)
}

var strictSemver = regexp.MustCompile(`^(0|[1-9][0-9]*)\.(0|[1-9][0-9]*)\.(0|[1-9][0-9]*)(?:-((?:0|[1-9][0-9]*|[0-9]*[a-zA-Z-][0-9a-zA-Z-]*)(?:\.(?:0|[1-9][0-9]*|[0-9]*[a-zA-Z-][0-9a-zA-Z-]*))*))?(?:\+([0-9a-zA-Z-]+(?:\.[0-9a-zA-Z-]+)*))?$`)

// StrictSemverValid is the official SemVer 2.0.0 grammar (the regular expression published on semver.org).
func StrictSemverValid(s string) bool { return strictSemver.MatchString(s) }
