package ref

import (
	"regexp"
	"strings"
)

// Port of org.apache.maven.artifact.versioning.ComparableVersion (Maven 3.8.x).

type mItem struct {
	kind int // 0 int, 1 string, 2 list
	num  string
	str  string
	list []*mItem
}

var mQualifiers = []string{"alpha", "beta", "milestone", "rc", "snapshot", "", "sp"}

func mComparableQualifier(q string) string {
	for i, x := range mQualifiers {
		if x == q {
			return string(rune('0' + i))
		}
	}
	return "7-" + q
}

func mNewString(v string, followedByDigit bool) *mItem {
	if followedByDigit && len(v) == 1 {
		switch v {
		case "a":
			v = "alpha"
		case "b":
			v = "beta"
		case "m":
			v = "milestone"
		}
	}
	switch v {
	case "ga", "final", "release":
		v = ""
	case "cr":
		v = "rc"
	}
	return &mItem{kind: 1, str: v}
}

func mParseItem(isDigit bool, buf string) *mItem {
	if isDigit {
		n := strings.TrimLeft(buf, "0")
		if n == "" {
			n = "0"
		}
		return &mItem{kind: 0, num: n}
	}
	return mNewString(buf, false)
}

func (it *mItem) isNull() bool {
	switch it.kind {
	case 0:
		return it.num == "0"
	case 1:
		return mComparableQualifier(it.str) == "5"
	default:
		return len(it.list) == 0
	}
}

func (it *mItem) normalize() {
	for i := len(it.list) - 1; i >= 0; i-- {
		last := it.list[i]
		if last.isNull() {
			it.list = append(it.list[:i], it.list[i+1:]...)
		} else if last.kind != 2 {
			break
		}
	}
}

func MavenParse(version string) *mItem {
	version = strings.ToLower(version)
	root := &mItem{kind: 2}
	list := root
	stack := []*mItem{root}
	isDigit := false
	start := 0
	for i := 0; i < len(version); i++ {
		c := version[i]
		switch {
		case c == '.':
			if i == start {
				list.list = append(list.list, &mItem{kind: 0, num: "0"})
			} else {
				list.list = append(list.list, mParseItem(isDigit, version[start:i]))
			}
			start = i + 1
		case c == '-':
			if i == start {
				list.list = append(list.list, &mItem{kind: 0, num: "0"})
			} else {
				list.list = append(list.list, mParseItem(isDigit, version[start:i]))
			}
			start = i + 1
			nl := &mItem{kind: 2}
			list.list = append(list.list, nl)
			list = nl
			stack = append(stack, nl)
		case isDigitB(c):
			if !isDigit && i > start {
				// Maven 3.8: 1.0.0.X1 is read like 1.0.0-X1 for any string qualifier X
				if len(list.list) > 0 {
					nl := &mItem{kind: 2}
					list.list = append(list.list, nl)
					list = nl
					stack = append(stack, nl)
				}
				list.list = append(list.list, mNewString(version[start:i], true))
				start = i
				nl := &mItem{kind: 2}
				list.list = append(list.list, nl)
				list = nl
				stack = append(stack, nl)
			}
			isDigit = true
		default:
			if isDigit && i > start {
				list.list = append(list.list, mParseItem(true, version[start:i]))
				start = i
				nl := &mItem{kind: 2}
				list.list = append(list.list, nl)
				list = nl
				stack = append(stack, nl)
			}
			isDigit = false
		}
	}
	if len(version) > start {
		// Maven 3.8: 1.0.0.X is read like 1.0.0-X for any string qualifier X
		if !isDigit && len(list.list) > 0 {
			nl := &mItem{kind: 2}
			list.list = append(list.list, nl)
			list = nl
			stack = append(stack, nl)
		}
		list.list = append(list.list, mParseItem(isDigit, version[start:]))
	}
	for i := len(stack) - 1; i >= 0; i-- {
		stack[i].normalize()
	}
	return root
}

func isDigitB(c byte) bool { return c >= '0' && c <= '9' }

// mCompare returns the sign and a tag for the deciding item classes.
func mCompare(a, b *mItem) (int, string) {
	if a == nil && b == nil {
		return 0, "equal"
	}
	if a == nil {
		c, t := mCompare(b, nil)
		return -c, t
	}
	switch a.kind {
	case 0:
		if b == nil {
			if a.num == "0" {
				return 0, "equal"
			}
			return 1, "int-vs-nothing"
		}
		switch b.kind {
		case 0:
			return cmpDecimal(a.num, b.num), "int-vs-int"
		case 1:
			return 1, "int-vs-string:" + mQClass(b.str)
		default:
			return 1, "int-vs-list"
		}
	case 1:
		if b == nil {
			return sign(strings.Compare(mComparableQualifier(a.str), "5")), "string-vs-nothing:" + mQClass(a.str)
		}
		switch b.kind {
		case 0:
			return -1, "int-vs-string:" + mQClass(a.str)
		case 1:
			x, y := mQClass(a.str), mQClass(b.str)
			if x > y {
				x, y = y, x
			}
			return sign(strings.Compare(mComparableQualifier(a.str), mComparableQualifier(b.str))), "string-vs-string:" + x + "," + y
		default:
			return -1, "string-vs-list"
		}
	default:
		if b == nil {
			if len(a.list) == 0 {
				return 0, "equal"
			}
			for _, it := range a.list {
				if c, t := mCompare(it, nil); c != 0 {
					return c, "list-vs-nothing>" + t
				}
			}
			return 0, "equal"
		}
		switch b.kind {
		case 0:
			return -1, "int-vs-list"
		case 1:
			return 1, "string-vs-list"
		default:
			for i := 0; i < len(a.list) || i < len(b.list); i++ {
				var l, r *mItem
				if i < len(a.list) {
					l = a.list[i]
				}
				if i < len(b.list) {
					r = b.list[i]
				}
				var c int
				var t string
				if l == nil {
					c, t = mCompare(r, nil)
					c = -c
				} else {
					c, t = mCompare(l, r)
				}
				if c != 0 {
					return c, t
				}
			}
			return 0, "equal"
		}
	}
}

func mQClass(q string) string {
	switch q {
	case "sp":
		return "sp"
	case "":
		return "release"
	case "alpha", "beta", "milestone", "rc", "snapshot":
		return "pre"
	}
	return "unknown"
}

var mavenMemo = map[string]*mItem{}

func mavenParsed(s string) *mItem {
	if p, hit := mavenMemo[s]; hit {
		return p
	}
	p := MavenParse(strings.TrimSpace(s))
	if len(mavenMemo) < 1<<20 {
		mavenMemo[s] = p
	}
	return p
}

func MavenCompare(a, b string) (int, string) {
	return mCompare(mavenParsed(a), mavenParsed(b))
}

var mavenConventional = regexp.MustCompile(`(?i)^[0-9]+(\.[0-9]+){0,3}(([.-][a-z]+([.-]?[0-9]+)?)|(-[0-9]+))?$`)
var mavenBareAlias = regexp.MustCompile(`(?i)[.-][abm]([.-][0-9]+)?$`)

// MavenConventional is C12's domain: dot-separated numbers followed by at most one qualifier
// group or build number; bare single-letter aliases a/b/m (not directly followed by a digit) are excluded.
func MavenConventional(s string) bool {
	s = strings.TrimSpace(s)
	if !mavenConventional.MatchString(s) {
		return false
	}
	return !mavenBareAlias.MatchString(s)
}

// MavenSimpleTree reports whether the ComparableVersion item tree of s has the conventional
// form: numbers at the top level, optionally followed by exactly one nested list that is either
// numbers only, or one qualifier string optionally followed by one nested list of numbers.
// On such trees a qualifier string never shares a position with a nested list.
func MavenSimpleTree(s string) bool {
	root := MavenParse(strings.TrimSpace(s))
	allInts := func(l []*mItem) bool {
		for _, it := range l {
			if it.kind != 0 {
				return false
			}
		}
		return true
	}
	items := root.list
	n := len(items)
	if n == 0 {
		return true
	}
	if !allInts(items[:n-1]) {
		return false
	}
	last := items[n-1]
	switch last.kind {
	case 0:
		return true
	case 1:
		return false
	}
	l := last.list
	if allInts(l) {
		return true
	}
	if len(l) >= 1 && l[0].kind == 1 {
		if len(l) == 1 {
			return true
		}
		if len(l) == 2 && l[1].kind == 2 && allInts(l[1].list) {
			return true
		}
	}
	return false
}
