package ref

import (
	"regexp"
	"strings"
)

var gemPattern = regexp.MustCompile(`^\s*([0-9]+(\.[0-9a-zA-Z]+)*(-[0-9A-Za-z-]+(\.[0-9A-Za-z-]+)*)?)?\s*$`)
var gemScan = regexp.MustCompile(`[0-9]+|[a-zA-Z]+`)

// GemValid: RubyGems' own VERSION_PATTERN, non-empty, letters in a single (lower) case.
func GemValid(s string) bool {
	t := strings.TrimSpace(s)
	if t == "" || !gemPattern.MatchString(s) {
		return false
	}
	return t == strings.ToLower(t)
}

type gemSeg struct {
	isNum bool
	num   string
	str   string
}

// GemCanonical returns Gem::Version#canonical_segments.
func GemCanonical(s string) []gemSeg {
	v := strings.ReplaceAll(strings.TrimSpace(s), "-", ".pre.")
	var segs []gemSeg
	for _, m := range gemScan.FindAllString(v, -1) {
		if isDigit(m[0]) {
			n := strings.TrimLeft(m, "0")
			if n == "" {
				n = "0"
			}
			segs = append(segs, gemSeg{isNum: true, num: n})
		} else {
			segs = append(segs, gemSeg{str: m})
		}
	}
	start := len(segs)
	for i, x := range segs {
		if !x.isNum {
			start = i
			break
		}
	}
	strip := func(l []gemSeg) []gemSeg {
		n := len(l)
		for n > 0 && l[n-1].isNum && l[n-1].num == "0" {
			n--
		}
		return l[:n]
	}
	numeric := strip(append([]gemSeg{}, segs[:start]...))
	str := strip(append([]gemSeg{}, segs[start:]...))
	return append(numeric, str...)
}

// GemCompare is Gem::Version#<=>.
var gemMemo = map[string][]gemSeg{}

func gemCanonicalMemo(s string) []gemSeg {
	if p, hit := gemMemo[s]; hit {
		return p
	}
	p := GemCanonical(s)
	if len(gemMemo) < 1<<20 {
		gemMemo[s] = p
	}
	return p
}

func GemCompare(a, b string) (int, string) {
	l, r := gemCanonicalMemo(a), gemCanonicalMemo(b)
	zero := gemSeg{isNum: true, num: "0"}
	for i := 0; i < len(l) || i < len(r); i++ {
		x, y := zero, zero
		tag := ""
		if i < len(l) {
			x = l[i]
		} else {
			tag = "[vs-missing]"
		}
		if i < len(r) {
			y = r[i]
		} else {
			tag = "[vs-missing]"
		}
		switch {
		case x.isNum && y.isNum:
			if c := cmpDecimal(x.num, y.num); c != 0 {
				return c, "int-vs-int" + tag
			}
		case !x.isNum && y.isNum:
			return -1, "string-vs-int" + tag
		case x.isNum && !y.isNum:
			return 1, "string-vs-int" + tag
		default:
			if c := strings.Compare(x.str, y.str); c != 0 {
				return sign(c), "string-vs-string"
			}
		}
	}
	return 0, "equal"
}

// GemVectors are documented examples from RubyGems' test_gem_version.rb.
var GemVectors = [][3]string{
	{"1.0", "1.0.0", "0"}, {"1.0", "1.0.a", "1"}, {"1.8.2", "1.8.2.a", "1"}, {"1.8.2.b", "1.8.2.a", "1"}, {"1.8.2.a10", "1.8.2.a9", "1"},
	{"0.beta.1", "0.0.beta.1", "0"}, {"0.0.beta", "0.0.beta.1", "-1"}, {"0.0.beta", "0.beta.1", "-1"}, {"5.a", "5.0.0.rc2", "-1"}, {"5.x", "5.0.0.rc2", "1"},
	{"1.0.0-alpha", "1.0.0.pre.alpha", "0"}, {"1.0", "1", "0"}, {"1.9.3", "1.9.2.99", "1"}, {"1.9.3", "1.9.3.1", "-1"}, {"1.0.0.rc1", "1.0.0", "-1"}, {"2.0.0.rc1", "2.0.0", "-1"},
	{"1.0.0.beta.2", "1.0.0.beta.10", "-1"}, {"1.2.3.a4", "1.2.3.a", "1"}, {"1", "1.0.0.0", "0"}, {"1.0.b1", "1.0.a.2", "1"},
}
