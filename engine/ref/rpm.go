package ref

import "strings"

func isAlnum(c byte) bool { return isDigit(c) || isAlpha(c) }

// Rpmvercmp is rpm >= 4.15's rpmvercmp with a decision tag.
func Rpmvercmp(a, b string) (int, string) {
	if a == b {
		return 0, "equal"
	}
	i, j := 0, 0
	for i < len(a) || j < len(b) {
		for i < len(a) && !isAlnum(a[i]) && a[i] != '~' && a[i] != '^' {
			i++
		}
		for j < len(b) && !isAlnum(b[j]) && b[j] != '~' && b[j] != '^' {
			j++
		}
		at := func(s string, k int, c byte) bool { return k < len(s) && s[k] == c }
		if at(a, i, '~') || at(b, j, '~') {
			if !at(a, i, '~') {
				return 1, "tilde"
			}
			if !at(b, j, '~') {
				return -1, "tilde"
			}
			i++
			j++
			continue
		}
		if at(a, i, '^') || at(b, j, '^') {
			if i >= len(a) {
				return -1, "caret-vs-end"
			}
			if j >= len(b) {
				return 1, "caret-vs-end"
			}
			if !at(a, i, '^') {
				return 1, "caret-vs-segment"
			}
			if !at(b, j, '^') {
				return -1, "caret-vs-segment"
			}
			i++
			j++
			continue
		}
		if i >= len(a) || j >= len(b) {
			break
		}
		si, sj := i, j
		numeric := isDigit(a[i])
		if numeric {
			for i < len(a) && isDigit(a[i]) {
				i++
			}
			for j < len(b) && isDigit(b[j]) {
				j++
			}
		} else {
			for i < len(a) && isAlpha(a[i]) {
				i++
			}
			for j < len(b) && isAlpha(b[j]) {
				j++
			}
		}
		sa, sb := a[si:i], b[sj:j]
		if sb == "" {
			if numeric {
				return 1, "class:numeric-vs-alpha"
			}
			return -1, "class:numeric-vs-alpha"
		}
		if numeric {
			ta, tb := strings.TrimLeft(sa, "0"), strings.TrimLeft(sb, "0")
			big := ""
			if len(ta) > 19 || len(tb) > 19 {
				big = "-big"
			}
			if len(ta) != len(tb) {
				return sign(len(ta) - len(tb)), "numeric:length" + big
			}
			if c := strings.Compare(ta, tb); c != 0 {
				return sign(c), "numeric:value" + big
			}
		} else {
			if c := strings.Compare(sa, sb); c != 0 {
				return sign(c), "alpha:strcmp"
			}
		}
	}
	if i >= len(a) && j >= len(b) {
		return 0, "equal-modulo-separators"
	}
	if i < len(a) {
		return 1, "remaining-segment"
	}
	return -1, "remaining-segment"
}

// RpmSplit splits [epoch:]version[-release] the way go-univers and rpm's parseEVR agree on:
// epoch before the first ':', release after the last '-'.
func RpmSplit(s string) (epoch, version, release string, hasRel bool) {
	s = strings.TrimSpace(s)
	if i := strings.Index(s, ":"); i >= 0 {
		e := s[:i]
		ok := e != ""
		for k := 0; k < len(e); k++ {
			if !isDigit(e[k]) {
				ok = false
			}
		}
		if ok {
			epoch, s = e, s[i+1:]
		}
	}
	if i := strings.LastIndex(s, "-"); i >= 0 {
		return epoch, s[:i], s[i+1:], true
	}
	return epoch, s, "", false
}

// RpmValid: C11's domain – characters [0-9A-Za-z._+~^] in version and release, numeric epoch,
// non-empty version part; a release, when present, is non-empty.
func RpmValid(s string) bool {
	s = strings.TrimSpace(s)
	if s == "" || strings.Count(s, ":") > 1 {
		return false
	}
	if i := strings.Index(s, ":"); i >= 0 {
		e := s[:i]
		if e == "" {
			return false
		}
		for k := 0; k < len(e); k++ {
			if !isDigit(e[k]) {
				return false
			}
		}
		if len(strings.TrimLeft(e, "0")) > 9 {
			return false
		}
	}
	_, v, r, hasRel := RpmSplit(s)
	if v == "" || (hasRel && r == "") {
		return false
	}
	ok := func(t string) bool {
		for k := 0; k < len(t); k++ {
			c := t[k]
			if !(isAlnum(c) || c == '.' || c == '_' || c == '+' || c == '~' || c == '^') {
				return false
			}
		}
		return true
	}
	return ok(v) && ok(r)
}

// RpmCompare compares EVR: epoch numerically, then version, then release (both present).
// A missing release against a present one is outside what rpmvercmp itself defines; following
// rpm's rpmVersionCompare, a missing release compares as the empty string.
func RpmCompare(a, b string) (int, string) {
	ea, va, ra, ha := RpmSplit(a)
	eb, vb, rb, hb := RpmSplit(b)
	if c := cmpDecimal(ea, eb); c != 0 {
		return c, "epoch"
	}
	if c, t := Rpmvercmp(va, vb); c != 0 {
		return c, "version:" + t
	}
	if ha != hb {
		c, t := Rpmvercmp(ra, rb)
		return c, "release-presence:" + t
	}
	c, t := Rpmvercmp(ra, rb)
	if c != 0 {
		return c, "release:" + t
	}
	return 0, "equal"
}

// RpmVectors are rpm's own test vectors (tests/rpmvercmp.at); the port is asserted against them.
var RpmVectors = [][3]string{
	{"1.0", "1.0", "0"}, {"1.0", "2.0", "-1"}, {"2.0", "1.0", "1"}, {"2.0.1", "2.0.1", "0"}, {"2.0", "2.0.1", "-1"}, {"2.0.1", "2.0", "1"},
	{"2.0.1a", "2.0.1a", "0"}, {"2.0.1a", "2.0.1", "1"}, {"2.0.1", "2.0.1a", "-1"}, {"5.5p1", "5.5p1", "0"}, {"5.5p1", "5.5p2", "-1"}, {"5.5p2", "5.5p1", "1"},
	{"5.5p10", "5.5p10", "0"}, {"5.5p1", "5.5p10", "-1"}, {"5.5p10", "5.5p1", "1"}, {"10xyz", "10.1xyz", "-1"}, {"10.1xyz", "10xyz", "1"},
	{"xyz10", "xyz10", "0"}, {"xyz10", "xyz10.1", "-1"}, {"xyz10.1", "xyz10", "1"}, {"xyz.4", "xyz.4", "0"}, {"xyz.4", "8", "-1"}, {"8", "xyz.4", "1"},
	{"xyz.4", "2", "-1"}, {"2", "xyz.4", "1"}, {"5.5p2", "5.6p1", "-1"}, {"5.6p1", "5.5p2", "1"}, {"5.6p1", "6.5p1", "-1"}, {"6.5p1", "5.6p1", "1"},
	{"6.0.rc1", "6.0", "1"}, {"6.0", "6.0.rc1", "-1"}, {"10b2", "10a1", "1"}, {"10a2", "10b2", "-1"}, {"1.0aa", "1.0aa", "0"}, {"1.0a", "1.0aa", "-1"}, {"1.0aa", "1.0a", "1"},
	{"10.0001", "10.0001", "0"}, {"10.0001", "10.1", "0"}, {"10.1", "10.0001", "0"}, {"10.0001", "10.0039", "-1"}, {"10.0039", "10.0001", "1"},
	{"4.999.9", "5.0", "-1"}, {"5.0", "4.999.9", "1"}, {"20101121", "20101121", "0"}, {"20101121", "20101122", "-1"}, {"20101122", "20101121", "1"},
	{"2_0", "2_0", "0"}, {"2.0", "2_0", "0"}, {"2_0", "2.0", "0"}, {"a", "a", "0"}, {"a+", "a+", "0"}, {"a+", "a_", "0"}, {"a_", "a+", "0"},
	{"+a", "+a", "0"}, {"+a", "_a", "0"}, {"_a", "+a", "0"}, {"+_", "+_", "0"}, {"_+", "+_", "0"}, {"_+", "_+", "0"}, {"+", "_", "0"}, {"_", "+", "0"},
	{"1.0~rc1", "1.0~rc1", "0"}, {"1.0~rc1", "1.0", "-1"}, {"1.0", "1.0~rc1", "1"}, {"1.0~rc1", "1.0~rc2", "-1"}, {"1.0~rc2", "1.0~rc1", "1"},
	{"1.0~rc1~git123", "1.0~rc1~git123", "0"}, {"1.0~rc1~git123", "1.0~rc1", "-1"}, {"1.0~rc1", "1.0~rc1~git123", "1"},
	{"1.0^", "1.0^", "0"}, {"1.0^", "1.0", "1"}, {"1.0", "1.0^", "-1"}, {"1.0^git1", "1.0^git1", "0"}, {"1.0^git1", "1.0", "1"}, {"1.0", "1.0^git1", "-1"},
	{"1.0^git1", "1.0^git2", "-1"}, {"1.0^git2", "1.0^git1", "1"}, {"1.0^git1", "1.01", "-1"}, {"1.01", "1.0^git1", "1"},
	{"1.0^20160101", "1.0^20160101", "0"}, {"1.0^20160101", "1.0.1", "-1"}, {"1.0.1", "1.0^20160101", "1"},
	{"1.0^20160101^git1", "1.0^20160101^git1", "0"}, {"1.0^20160102", "1.0^20160101^git1", "1"}, {"1.0^20160101^git1", "1.0^20160102", "-1"},
	{"1.0~rc1^git1", "1.0~rc1^git1", "0"}, {"1.0~rc1^git1", "1.0~rc1", "1"}, {"1.0~rc1", "1.0~rc1^git1", "-1"},
	{"1.0^git1~pre", "1.0^git1~pre", "0"}, {"1.0^git1", "1.0^git1~pre", "1"}, {"1.0^git1~pre", "1.0^git1", "-1"},
}
