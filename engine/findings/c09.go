package findings

import (
	"strings"

	"verif/engine/core"
)

func init() {
	// pypi: Compare ignores the local version label entirely (1.0+abc == 1.0, 1.0+1 == 1.0+2).
	// Pinned by the repository's test TestContains_PyPI/"different local also excluded per PEP 440"
	// (vers '!=1.0.0+local1' must exclude 1.0.0+local2 through Compare == 0).
	Register("C09-pypi-local-label-ignored", func(v *core.Violation) bool {
		return v.Kind == "order" && strings.HasPrefix(v.Note, "local:") && v.Got == "Compare=0"
	})
}
