package findings

import (
	"regexp"
	"strings"
	"unicode"

	"verif/engine/core"
	"verif/engine/ref"
)

// Reference-side copy of the documented apk version grammar (not read from the code under test).
var apkGrammar = regexp.MustCompile(`^[0-9]+(\.[0-9]+)*[a-z]?(_[a-z]+[0-9]*)*(~[a-f0-9]+)?(-r[0-9]+)?$`)

// AlpineFallback: the string is accepted by go-univers' alpine parser only through its
// "contains a digit" fallback (it is not an apk version).
func AlpineFallback(s string) bool { return !apkGrammar.MatchString(strings.TrimSpace(s)) }

// MavenTokens splits like ComparableVersion does (at '.', '-' and digit/letter transitions), lower-cased.
func MavenTokens(s string) []string {
	s = strings.ToLower(strings.TrimSpace(s))
	var out []string
	cur := ""
	kind := 0 // 1 digit, 2 other
	flush := func() {
		if cur != "" {
			out = append(out, cur)
		}
		cur = ""
	}
	for _, r := range s {
		switch {
		case r == '.' || r == '-':
			flush()
			kind = 0
		case unicode.IsDigit(r):
			if kind == 2 {
				flush()
			}
			cur += string(r)
			kind = 1
		default:
			if kind == 1 {
				flush()
			}
			cur += string(r)
			kind = 2
		}
	}
	flush()
	return out
}

// MavenCycleElement: the version carries a qualifier that takes part in go-univers' intransitive
// cross-class rules at one position (number < sp < unknown-qualifier < number, and
// number < ga/final/release(non-trailing) < sp).
func MavenCycleElement(s string) bool {
	for _, t := range MavenTokens(s) {
		switch t {
		case "sp", "ga", "final", "release":
			return true
		}
	}
	return false
}

// AlpmPkgver extracts the pkgver the way go-univers does (epoch before the first ':', pkgrel
// after the last '-' when all digits).
func AlpmPkgver(s string) string {
	s = strings.TrimSpace(s)
	if i := strings.Index(s, ":"); i >= 0 {
		s = s[i+1:]
	}
	if i := strings.LastIndex(s, "-"); i >= 0 && i+1 < len(s) {
		all := true
		for _, c := range s[i+1:] {
			if !unicode.IsDigit(c) {
				all = false
			}
		}
		if all {
			s = s[:i]
		}
	}
	return s
}

// AlpmLetterSuffixElement: the pkgver has a letter at a non-initial position, so that some proper
// prefix p exists with pkgver = p + <letter>…; go-univers then applies a raw-string
// "direct suffix" rule (p+letters < p) that disagrees with its own segment comparison.
func AlpmLetterSuffixElement(s string) bool {
	p := AlpmPkgver(s)
	for i, r := range p {
		if i > 0 && unicode.IsLetter(r) {
			return true
		}
	}
	return false
}

// AlpmDegenerateSeparators: the pkgver starts or ends with a separator, or contains two
// adjacent separators (an empty segment) - shapes on which libalpm's vercmp is not transitive.
func AlpmDegenerateSeparators(s string) bool {
	p := AlpmPkgver(s)
	if p == "" {
		return true
	}
	alnum := func(c byte) bool { return (c >= '0' && c <= '9') || (c >= 'a' && c <= 'z') || (c >= 'A' && c <= 'Z') }
	if !alnum(p[0]) || !alnum(p[len(p)-1]) {
		return true
	}
	for i := 1; i < len(p); i++ {
		if !alnum(p[i]) && !alnum(p[i-1]) {
			return true
		}
	}
	return false
}

// GolangLiteralPseudo: a non-pseudo version whose pre-release is literally "pseudo" – the
// sentinel go-univers uses internally for pseudo-versions.
func GolangLiteralPseudo(s string) bool {
	s = strings.TrimSpace(s)
	if i := strings.Index(s, "+"); i >= 0 {
		s = s[:i]
	}
	return strings.HasSuffix(s, "-pseudo") && strings.Count(s, "-") == 1
}

// mavenConventionalShape: the ComparableVersion item tree is "numbers, then at most one group"
// (see ref.MavenSimpleTree), so a qualifier string never meets a nested list at one position.
func mavenConventionalShape(s string) bool { return ref.MavenSimpleTree(s) }

func anyInput(f func(string) bool) Pred {
	return func(v *core.Violation) bool {
		for _, s := range v.Inputs {
			if f(s) {
				return true
			}
		}
		return false
	}
}

func init() {
	Register("C01-alpine-string-fallback", func(v *core.Violation) bool {
		return v.Kind == "transitivity" && anyInput(AlpineFallback)(v)
	})
	Register("C01-maven-qualifier-cycle", func(v *core.Violation) bool {
		return v.Kind == "transitivity" && anyInput(MavenCycleElement)(v)
	})
	// Maven's own ComparableVersion is not transitive where a qualifier string meets a nested
	// list at the same position (string < list whatever the list holds): 0 < p0 < -a0 < 0.
	// That needs an operand whose item tree is not of the simple form "numbers, then at most one
	// qualifier group or build number": 1 < 1.sp-1 < 1-alpha < 1 in Maven itself.
	Register("C01-maven-comparableversion-string-vs-list", func(v *core.Violation) bool {
		return v.Kind == "transitivity" && anyInput(func(s string) bool { return !mavenConventionalShape(s) })(v)
	})
	Register("C01-alpm-direct-suffix", func(v *core.Violation) bool {
		return v.Kind == "transitivity" && anyInput(AlpmLetterSuffixElement)(v)
	})
	// libalpm's vercmp itself is not transitive on pkgvers with an empty segment (leading,
	// trailing or doubled separator): "+" < "0" < "+a" < "+", "1+" < "1+0" < "1..a" < "1+".
	Register("C01-alpm-vercmp-empty-segment", func(v *core.Violation) bool {
		return v.Kind == "transitivity" && anyInput(AlpmDegenerateSeparators)(v)
	})
	Register("C01-golang-literal-pseudo", func(v *core.Violation) bool {
		return v.Kind == "transitivity" && anyInput(GolangLiteralPseudo)(v)
	})
}
