package findings

import (
	"regexp"
	"strconv"
	"strings"

	"verif/engine/core"
)

var fourDigitMajor = regexp.MustCompile(`^v?[0-9]{4}\.`)
var githubDate = regexp.MustCompile(`^v?[0-9]{4}\.([0-9]{1,2})\.([0-9]{1,2})$`)
var gemNumAfterWord = regexp.MustCompile(`[A-Za-z][.]?[0-9]`)

func init() {
	// github: a 4-digit first component switches to the date parser, which rejects month/day 0
	// or out of range, and date-shaped versions sort below all others.
	Register("C03-github-4digit-major", func(v *core.Violation) bool {
		switch v.Kind {
		case "tuple-rejected":
			// the date parser's range check: month outside 1..12 or day outside 1..31
			m := githubDate.FindStringSubmatch(v.Inputs[0])
			if m == nil {
				return false
			}
			mo, _ := strconv.Atoi(m[1])
			da, _ := strconv.Atoi(m[2])
			return mo < 1 || mo > 12 || da < 1 || da > 31
		case "tuple-order":
			// exactly one operand is read as a date (the other has a 3+ digit component and is
			// read as a semantic version): the date sorts below, whatever the numbers are.
			// Two dates, or two semantic versions, ordered wrongly are NOT this finding.
			if len(v.Inputs) != 2 || !fourDigitMajor.MatchString(v.Inputs[0]) || !fourDigitMajor.MatchString(v.Inputs[1]) {
				return false
			}
			da, db := githubDate.MatchString(v.Inputs[0]), githubDate.MatchString(v.Inputs[1])
			if da == db {
				return false
			}
			if da {
				return strings.HasPrefix(v.Got, "Compare=-1 ")
			}
			return strings.HasPrefix(v.Got, "Compare=1 ")
		}
		return false
	})
	// rpm: a bare trailing caret is skipped like a separator, so X^ == X.
	Register("C03-rpm-bare-caret-equal", func(v *core.Violation) bool {
		return v.Kind == "post-marker" && len(v.Inputs) == 3 && v.Inputs[2] == "^" &&
			strings.HasPrefix(v.Got, "Compare(marked,plain)=0 Compare(plain,marked)=0")
	})
	// gem: a number following a letter segment (X.rc1, X.beta2, X.alpha.1) is counted as an extra
	// numeric release segment, so the pre-release sorts above its release.
	Register("C03-gem-prerelease-number-counts-as-release-segment", func(v *core.Violation) bool {
		return v.Kind == "pre-marker" && len(v.Inputs) == 3 && gemNumAfterWord.MatchString(v.Inputs[2]) &&
			strings.HasPrefix(v.Got, "Compare(marked,plain)=1 Compare(plain,marked)=-1")
	})
}
