package findings

import (
	"regexp"
	"strings"

	"verif/engine/core"
)

var fourDigitMajor = regexp.MustCompile(`^v?[0-9]{4}\.`)
var gemNumAfterWord = regexp.MustCompile(`[A-Za-z][.]?[0-9]`)

func init() {
	// github: a 4-digit first component switches to the date parser, which rejects month/day 0
	// or out of range, and date-shaped versions sort below all others.
	Register("C03-github-4digit-major", func(v *core.Violation) bool {
		if v.Kind != "tuple-rejected" && v.Kind != "tuple-order" {
			return false
		}
		for _, s := range v.Inputs {
			if fourDigitMajor.MatchString(s) {
				return true
			}
		}
		return false
	})
	// rpm: a bare trailing caret is skipped like a separator, so X^ == X.
	Register("C03-rpm-bare-caret-equal", func(v *core.Violation) bool {
		return v.Kind == "post-marker" && len(v.Inputs) == 3 && v.Inputs[2] == "^" &&
			strings.HasPrefix(v.Got, "Compare(marked,plain)=0 Compare(plain,marked)=0")
	})
	// gem: a number following a letter segment (X.rc1, X.beta2, X.alpha.1) is counted as an extra
	// numeric release segment, so the pre-release sorts above its release.
	Register("C03-gem-prerelease-number-counts-as-release-segment", func(v *core.Violation) bool {
		return v.Kind == "pre-marker" && len(v.Inputs) == 3 && gemNumAfterWord.MatchString(v.Inputs[2]) &&
			strings.HasPrefix(v.Got, "Compare(marked,plain)=1 Compare(plain,marked)=-1")
	})
}
