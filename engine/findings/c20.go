package findings

import (
	"regexp"
	"strings"

	"verif/engine/core"
)

// composer stability markers (alpha, beta, RC, dev and the short forms a, b)
var composerNonStable = regexp.MustCompile(`(?i)(alpha|beta|rc|dev|(^|[0-9.-])(a|b)([0-9.]|$))`)

func init() {
	// alpm: a comparator whose bound triggers the raw-string "direct suffix" rule (bound = p+letters)
	// treats Compare-equal spellings of p differently (see C01-alpm-direct-suffix).
	Register("C20-alpm-direct-suffix-bound", func(v *core.Violation) bool {
		if v.Kind != "equal-versions-differ" && v.Kind != "not-convex" {
			return false
		}
		for _, f := range strings.Fields(v.Inputs[0]) {
			if AlpmLetterSuffixElement(strings.TrimLeft(f, "<>=")) {
				return true
			}
		}
		return false
	})
	// composer: matchesCaret literally special-cases the text "1.0b1" for the constraint "1.0.0"
	// (pinned by a repository test), so the equal version "1b1" / "1.0.0-beta1" is treated differently.
	Register("C20-composer-caret-literal-1.0b1", func(v *core.Violation) bool {
		if v.Kind != "equal-versions-differ" || !strings.HasPrefix(v.Inputs[0], "^") {
			return false
		}
		return (v.Inputs[1] == "1.0b1" || v.Inputs[2] == "1.0b1") && strings.Contains(v.Got, `Contains("1.0b1")=true`)
	})
	// composer: a caret with a stable base and a non-zero major rejects every non-stable version (a stability
	// filter), so the range is not convex: ^2 contains 2.0.1 and 2.10.1 but not 2.1-dev.
	Register("C20-composer-caret-stability-filter", func(v *core.Violation) bool {
		if v.Kind != "not-convex" || !strings.HasPrefix(v.Inputs[0], "^") || len(v.Inputs) != 4 {
			return false
		}
		base := strings.TrimPrefix(strings.TrimPrefix(v.Inputs[0], "^"), "v")
		if i := strings.Index(base, "+"); i >= 0 {
			base = base[:i]
		}
		b := strings.TrimPrefix(v.Inputs[2], "v")
		if i := strings.Index(b, "+"); i >= 0 {
			b = b[:i]
		}
		// only carets with a non-zero major have the filter (^0.x is a plain interval)
		if base == "0" || strings.HasPrefix(base, "0.") || strings.HasPrefix(base, "00") {
			return false
		}
		return !composerNonStable.MatchString(base) && composerNonStable.MatchString(b)
	})
}
