// Package findings attributes violations to the genuine defects listed in
// /verif/known_findings.json. The file is read-only at run time. An entry is active only if its
// status is "known"; a "fixed" entry suppresses nothing. Every active entry must have a predicate
// registered under its id (a pure function of the failing inputs and the observed output);
// a violation is attributed to an entry only if the predicate accepts it.
package findings

import (
	"encoding/json"
	"fmt"
	"os"
	"sort"

	"verif/engine/core"
)

type Entry struct {
	ID       string   `json:"id"`
	Status   string   `json:"status"` // "known" | "fixed"
	Property string   `json:"property"`
	Scope    string   `json:"scope"`
	Class    string   `json:"class"`
	Observed string   `json:"observed,omitempty"`
	Witness  []string `json:"witness,omitempty"`
	What     string   `json:"what"`
	Commit   string   `json:"commit,omitempty"`
	Line     string   `json:"line,omitempty"` // the "fixed: property=… <commit> <what failed>" record
}

type File struct {
	Findings []Entry `json:"findings"`
}

// Pred decides whether a violation belongs to the finding.
type Pred func(v *core.Violation) bool

var preds = map[string]Pred{}

func Register(id string, p Pred) { preds[id] = p }

type Set struct {
	byProp map[string][]Entry
	all    []Entry
}

func Load(path string) (*Set, error) {
	b, err := os.ReadFile(path)
	if err != nil {
		return nil, err
	}
	var f File
	if err := json.Unmarshal(b, &f); err != nil {
		return nil, err
	}
	s := &Set{byProp: map[string][]Entry{}, all: f.Findings}
	for _, e := range f.Findings {
		if e.Status != "known" {
			continue
		}
		if preds[e.ID] == nil {
			return nil, fmt.Errorf("known finding %q has no registered predicate", e.ID)
		}
		s.byProp[e.Property] = append(s.byProp[e.Property], e)
	}
	return s, nil
}

// Classifier returns the attribution function for one property.
func (s *Set) Classifier(prop string) func(v *core.Violation) string {
	es := s.byProp[prop]
	return func(v *core.Violation) string {
		for i := range es {
			e := &es[i]
			if e.Scope != "" && e.Scope != "*" && e.Scope != v.Scope {
				continue
			}
			if preds[e.ID](v) {
				return e.ID
			}
		}
		return ""
	}
}

func (s *Set) Entry(id string) *Entry {
	for i := range s.all {
		if s.all[i].ID == id {
			return &s.all[i]
		}
	}
	return nil
}

func (s *Set) Active(prop string) []string {
	var ids []string
	for _, e := range s.byProp[prop] {
		ids = append(ids, e.ID)
	}
	sort.Strings(ids)
	return ids
}

// Active is the set loaded by the driver (read-only).
var Active *Set

// ElementInClass reports whether a single input string falls into the class of some active
// known finding of the given property and scope (used to keep known-intransitive or
// known-misordered elements out of checks that presuppose a consistent order).
func ElementInClass(prop, scope, kind, s string) bool {
	if Active == nil {
		return false
	}
	v := core.Violation{Property: prop, Scope: scope, Kind: kind, Inputs: []string{s}}
	return Active.Classifier(prop)(&v) != ""
}
