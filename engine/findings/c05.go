package findings

import (
	"regexp"

	"verif/engine/core"
)

var hexTwoComp = regexp.MustCompile(`^~> ?[0-9]+\.[1-9][0-9]*$`)

func init() {
	// hex: '~> X.Y' with Y > 0 uses the upper bound X.(Y+1).0 instead of (X+1).0.0.
	// Pinned by the repository's test "Elixir compatibility - out of range" (~>1.14 must not
	// contain 1.15.7), so it cannot be repaired without editing the suite.
	Register("C05-hex-pessimistic-two-components", func(v *core.Violation) bool {
		return v.Kind == "membership" && v.Note == "~>X.Y;inside-rejected" && v.Got == "Contains=false" &&
			len(v.Inputs) > 0 && hexTwoComp.MatchString(v.Inputs[0])
	})
}
