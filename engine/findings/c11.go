package findings

import (
	"strings"

	"verif/engine/core"
)

func init() {
	// rpm: an alphabetic segment is ranked newer than a numeric one at the same position
	// (rpmvercmp: numeric is newer). Pinned by the repository's own test
	// TestVersion_Compare/release_numeric_vs_alpha, so it cannot be repaired without editing it.
	// Attributed only when the reference decided the pair by exactly that rule and the
	// implementation returned the opposite sign.
	Register("C11-rpm-alpha-above-numeric", func(v *core.Violation) bool {
		if v.Kind != "order" || !strings.HasSuffix(v.Note, "class:numeric-vs-alpha") {
			return false
		}
		return (v.Expected == "reference=1" && v.Got == "Compare=-1") || (v.Expected == "reference=-1" && v.Got == "Compare=1")
	})
}
