// Package core is the small runtime shared by all property checkers: work units, worker-process
// sharding, result merging, violation bookkeeping and evidence output.
package core

import (
	"crypto/sha1"
	"encoding/hex"
	"encoding/json"
	"fmt"
	"os"
	"sort"
	"strings"
)

// Violation is one failing case. It is self-contained: Replay of the owning property re-executes
// it from these fields alone.
type Violation struct {
	Property string   `json:"property"`
	Scope    string   `json:"scope"` // ecosystem name or VERS scheme
	Kind     string   `json:"kind"`
	Inputs   []string `json:"inputs"`
	Expected string   `json:"expected"`
	Got      string   `json:"got"`
	Finding  string   `json:"finding,omitempty"` // id of the known finding it was attributed to
	Note     string   `json:"note,omitempty"`
	// Unit/Tier locate the enumeration the case came from; HistoryDependent marks a case that
	// fails only after the cases enumerated before it in that unit (hidden state in the code
	// under test), in which case replay re-runs the unit.
	Unit             string `json:"unit,omitempty"`
	Worker           string `json:"worker,omitempty"` // "i/n": the worker's unit sequence is the history
	Tier             string `json:"tier,omitempty"`
	HistoryDependent bool   `json:"history_dependent,omitempty"`
}

func (v *Violation) Key() string {
	h := sha1.Sum([]byte(v.Property + "\x00" + v.Scope + "\x00" + v.Kind + "\x00" + strings.Join(v.Inputs, "\x00")))
	return hex.EncodeToString(h[:6])
}

func (v *Violation) size() int {
	n := 0
	for _, s := range v.Inputs {
		n += len(s)
	}
	return n
}

const maxNew = 400
const maxSamples = 12

// Result is what one worker (or the merged run) produced.
type Result struct {
	Counters    map[string]int64            `json:"counters"`
	PerScope    map[string]map[string]int64 `json:"per_scope"`
	Samples     []any                       `json:"samples"`
	New         []Violation                 `json:"new"`
	NewCount    int64                       `json:"new_count"`
	KnownCount  map[string]int64            `json:"known_count"`
	KnownWit    map[string]Violation        `json:"known_witness"`
	Internal    []string                    `json:"internal"`
	Notes       []string                    `json:"notes"`
	Incomplete  []string                    `json:"incomplete"` // reasons the run is not exhaustive
	Sets        map[string]map[string]bool  `json:"sets"`       // named small sets (distinct outcomes …)
	Units       int                         `json:"units"`
	sampleSeen  map[string]bool
	newSeen     map[string]bool
	Classifier  func(v *Violation) string `json:"-"`
	sampleEvery map[string]int64
	perScopeNew map[string]int
	CurUnit     string `json:"-"`
	CurWorker   string `json:"-"`
	CurTier     string `json:"-"`
}

func NewResult() *Result {
	return &Result{
		Counters: map[string]int64{}, PerScope: map[string]map[string]int64{},
		KnownCount: map[string]int64{}, KnownWit: map[string]Violation{},
		Sets: map[string]map[string]bool{}, sampleSeen: map[string]bool{}, newSeen: map[string]bool{},
		sampleEvery: map[string]int64{},
	}
}

func (r *Result) Add(name string, n int64) { r.Counters[name] += n }

func (r *Result) AddScope(scope, name string, n int64) {
	m := r.PerScope[scope]
	if m == nil {
		m = map[string]int64{}
		r.PerScope[scope] = m
	}
	m[name] += n
}

// SetAdd records a member of a named small set (capped at 4096 members).
func (r *Result) SetAdd(set, member string) {
	m := r.Sets[set]
	if m == nil {
		m = map[string]bool{}
		r.Sets[set] = m
	}
	if len(m) < 4096 {
		m[member] = true
	}
}

// Sample keeps up to a few samples per category (the first, then sparse later ones).
func (r *Result) Sample(cat string, s any) {
	r.sampleEvery[cat]++
	n := r.sampleEvery[cat]
	if n == 1 || n == 1000 || n == 100000 {
		if len(r.Samples) < 400 {
			r.Samples = append(r.Samples, map[string]any{"category": cat, "case": s})
		}
	}
}

func (r *Result) Internalf(f string, a ...any) {
	if len(r.Internal) < 50 {
		r.Internal = append(r.Internal, fmt.Sprintf(f, a...))
	}
}

func (r *Result) Notef(f string, a ...any) {
	if len(r.Notes) < 200 {
		r.Notes = append(r.Notes, fmt.Sprintf(f, a...))
	}
}

func (r *Result) Incompletef(f string, a ...any) {
	if len(r.Incomplete) < 50 {
		r.Incomplete = append(r.Incomplete, fmt.Sprintf(f, a...))
	}
}

// Violate records a failing case; it is classified against the active known findings first.
func (r *Result) Violate(v Violation) {
	v.Unit, v.Tier, v.Worker = r.CurUnit, r.CurTier, r.CurWorker
	if r.Classifier != nil {
		if id := r.Classifier(&v); id != "" {
			v.Finding = id
			r.KnownCount[id]++
			if w, ok := r.KnownWit[id]; !ok || v.size() < w.size() {
				r.KnownWit[id] = v
			}
			return
		}
	}
	r.NewCount++
	r.AddScope(v.Scope, "new_violations:"+v.Kind, 1)
	if v.Note != "" && len(r.PerScope[v.Scope]) < 300 {
		r.AddScope(v.Scope, "new_by_note:"+v.Kind+"|"+v.Note, 1)
	}
	k := v.Key()
	if r.newSeen[k] {
		return
	}
	r.newSeen[k] = true
	if r.perScopeNew == nil {
		r.perScopeNew = map[string]int{}
	}
	pk := v.Scope + "/" + v.Kind + "/" + v.Note
	r.perScopeNew[pk]++
	if r.perScopeNew[pk] > 3 {
		return
	}
	if len(r.New) < maxNew {
		r.New = append(r.New, v)
		return
	}
	// keep the smallest witnesses
	worst, wi := -1, -1
	for i := range r.New {
		if s := r.New[i].size(); s > worst {
			worst, wi = s, i
		}
	}
	if v.size() < worst {
		r.New[wi] = v
	}
}

// Merge folds o into r.
func (r *Result) Merge(o *Result) {
	for k, v := range o.Counters {
		r.Counters[k] += v
	}
	for s, m := range o.PerScope {
		for k, v := range m {
			r.AddScope(s, k, v)
		}
	}
	r.Samples = append(r.Samples, o.Samples...)
	r.NewCount += o.NewCount
	for _, v := range o.New {
		k := v.Key()
		if !r.newSeen[k] {
			r.newSeen[k] = true
			r.New = append(r.New, v)
		}
	}
	for k, v := range o.KnownCount {
		r.KnownCount[k] += v
	}
	for k, v := range o.KnownWit {
		if w, ok := r.KnownWit[k]; !ok || v.size() < w.size() {
			r.KnownWit[k] = v
		}
	}
	r.Internal = append(r.Internal, o.Internal...)
	r.Notes = append(r.Notes, o.Notes...)
	r.Incomplete = append(r.Incomplete, o.Incomplete...)
	for s, m := range o.Sets {
		for k := range m {
			r.SetAdd(s, k)
		}
	}
	r.Units += o.Units
}

func (r *Result) SortNew() {
	sort.SliceStable(r.New, func(i, j int) bool {
		if a, b := r.New[i].size(), r.New[j].size(); a != b {
			return a < b
		}
		return r.New[i].Key() < r.New[j].Key()
	})
}

func (r *Result) Save(path string) error {
	b, err := json.Marshal(r)
	if err != nil {
		return err
	}
	return os.WriteFile(path, b, 0o644)
}

func LoadResult(path string) (*Result, error) {
	b, err := os.ReadFile(path)
	if err != nil {
		return nil, err
	}
	r := NewResult()
	if err := json.Unmarshal(b, r); err != nil {
		return nil, err
	}
	if r.Counters == nil {
		r.Counters = map[string]int64{}
	}
	if r.PerScope == nil {
		r.PerScope = map[string]map[string]int64{}
	}
	if r.KnownCount == nil {
		r.KnownCount = map[string]int64{}
	}
	if r.KnownWit == nil {
		r.KnownWit = map[string]Violation{}
	}
	if r.Sets == nil {
		r.Sets = map[string]map[string]bool{}
	}
	return r, nil
}

// Unit is one independently executable piece of a property's enumeration.
type Unit struct {
	Name   string
	Weight int // relative cost, used only for load balancing
	Run    func(r *Result)
}

// Prop is a property checker.
type Prop struct {
	ID    string
	Title string
	// Units returns the deterministic list of work units for a tier.
	Units func(tier string) []Unit
	// Replay re-executes one violation on the current tree; it reports whether the case still
	// fails and a short description of what was observed.
	Replay func(v *Violation) (fails bool, detail string)
	// Finalize turns merged counters into the evidence coverage map.
	Finalize func(r *Result, tier string) map[string]any
	// Conformance is an optional script (relative to /verif) that replays the reference model
	// against the upstream tool; run in the thorough tier. Its last line must contain
	// "pairs=N disagreements=M".
	Conformance     string
	ConformanceArgs map[string]string // tier -> argument
	// Post runs once in the parent after the workers' results are merged (e.g. to run a
	// separately built binary); it may add violations.
	Post        func(r *Result, tier string)
	Rule        string
	Assumptions []string
	Trusted     []string
}

var registry = map[string]*Prop{}

func Register(p *Prop)    { registry[p.ID] = p }
func Get(id string) *Prop { return registry[id] }
func IDs() []string {
	var ids []string
	for k := range registry {
		ids = append(ids, k)
	}
	sort.Strings(ids)
	return ids
}

// Assign deals units to workers by descending weight (longest processing time first).
func Assign(units []Unit, n int) [][]int {
	idx := make([]int, len(units))
	for i := range idx {
		idx[i] = i
	}
	sort.SliceStable(idx, func(a, b int) bool { return units[idx[a]].Weight > units[idx[b]].Weight })
	load := make([]int, n)
	out := make([][]int, n)
	for _, i := range idx {
		best := 0
		for w := 1; w < n; w++ {
			if load[w] < load[best] {
				best = w
			}
		}
		w := units[i].Weight
		if w <= 0 {
			w = 1
		}
		load[best] += w
		out[best] = append(out[best], i)
	}
	for w := range out {
		sort.Ints(out[w])
	}
	return out
}
