//go:build verif_instr

// Package sched is the cooperative scheduler of the interleaving explorer. Threads are real
// goroutines running real library calls; every instrumented statement (vpoint.P) is a scheduling
// point at which the running thread parks until the scheduler resumes it. Exactly one thread
// runs at a time; the sequence of choices is the schedule.
package sched

import (
	"fmt"
	"runtime"
	"sync/atomic"
	"time"

	"github.com/alowayed/go-univers/pkg/vpoint"
)

type event struct {
	done  bool
	point int
	out   string
}

type thread struct {
	id      int
	resume  chan struct{}
	events  chan event
	started bool
	done    bool
	blocked bool // did not reach a point within the grace period (waiting on a real lock)
	out     string
	steps   int
}

// Execution is the record of one complete run.
type Execution struct {
	Choices  []int    // thread chosen at each scheduling decision
	Enabled  [][]int  // enabled threads at each decision (canonical order)
	Points   []int    // point id at which the chosen thread stopped after the step (-1 = finished)
	Results  []string // per thread
	Deadlock bool
	// Unschedulable: a thread blocked on a real synchronisation primitive (it did not reach its
	// next point within BlockGrace); the threads were then released to run freely and the
	// execution carries no interleaving verdict.
	Unschedulable bool
	Steps         int
}

// Chooser decides which enabled thread runs next; decision is the index of the decision.
type Chooser func(decision int, enabled []int, running int) int

var current *thread
var freeRun bool

// BlockGrace is how long the scheduler waits for the running thread to reach its next point
// before treating it as blocked on a real synchronisation primitive.
var BlockGrace = 2 * time.Second

// AfterStep, when set, is called after every step (thread index, point id) while no thread runs.
var AfterStep func(thread, point int)

// Run executes the thread bodies under the chooser.
func Run(bodies []func() string, choose Chooser) *Execution {
	ths := make([]*thread, len(bodies))
	for i := range bodies {
		ths[i] = &thread{id: i, resume: make(chan struct{}), events: make(chan event, 1)}
	}
	vpoint.Hook = func(id int) {
		t := current
		if t == nil || freeRun {
			return
		}
		t.events <- event{point: id}
		<-t.resume
		current = t
	}
	freeRun = false
	defer func() { vpoint.Hook = nil; current = nil; freeRun = false }()
	for i, b := range bodies {
		t, body := ths[i], b
		go func() {
			<-t.resume
			current = t
			out := func() (o string) {
				defer func() {
					if r := recover(); r != nil {
						o = fmt.Sprintf("panic: %v", r)
					}
				}()
				return body()
			}()
			current = nil
			t.events <- event{done: true, out: out}
		}()
	}
	x := &Execution{Results: make([]string, len(bodies))}
	running := -1
	// one P: hand-offs between the scheduler and the threads become direct goroutine switches
	defer runtime.GOMAXPROCS(runtime.GOMAXPROCS(1))
	// watchdog: signals when no step completed for BlockGrace (a thread blocked on a real lock)
	var progress int64
	stuck := make(chan struct{})
	stop := make(chan struct{})
	defer close(stop)
	go func() {
		last, lastChange := int64(-1), time.Now()
		tick := time.NewTicker(BlockGrace / 4)
		defer tick.Stop()
		for {
			select {
			case <-stop:
				return
			case <-tick.C:
				p := atomic.LoadInt64(&progress)
				if p != last {
					last, lastChange = p, time.Now()
				} else if time.Since(lastChange) >= BlockGrace {
					close(stuck)
					return
				}
			}
		}
	}()
	for {
		// a thread considered blocked may have reached a point in the meantime
		for _, t := range ths {
			if t.blocked {
				select {
				case ev := <-t.events:
					t.blocked = false
					if ev.done {
						t.done, t.out = true, ev.out
					}
				default:
				}
			}
		}
		var enabled []int
		if running >= 0 && !ths[running].done && !ths[running].blocked {
			enabled = append(enabled, running)
		}
		for _, t := range ths {
			if !t.done && !t.blocked && t.id != running {
				enabled = append(enabled, t.id)
			}
		}
		if len(enabled) == 0 {
			allDone := true
			anyBlocked := false
			for _, t := range ths {
				if !t.done {
					allDone = false
				}
				if t.blocked {
					anyBlocked = true
				}
			}
			if allDone {
				break
			}
			if anyBlocked {
				// every remaining thread waits on a real lock held by nobody who can run: deadlock
				x.Deadlock = true
				break
			}
			break
		}
		c := choose(len(x.Choices), enabled, running)
		if c < 0 || c >= len(enabled) {
			panic(fmt.Sprintf("sched: chooser returned %d with %d enabled threads (replay divergence)", c, len(enabled)))
		}
		t := ths[enabled[c]]
		x.Choices = append(x.Choices, t.id)
		x.Enabled = append(x.Enabled, enabled)
		running = t.id
		t.resume <- struct{}{}
		select {
		case ev := <-t.events:
			atomic.AddInt64(&progress, 1)
			x.Steps++
			t.steps++
			if ev.done {
				t.done, t.out = true, ev.out
				x.Points = append(x.Points, -1)
			} else {
				x.Points = append(x.Points, ev.point)
			}
			if AfterStep != nil {
				AfterStep(t.id, x.Points[len(x.Points)-1])
			}
		case <-stuck:
			// real blocking: release everything and give up on this execution
			x.Unschedulable = true
			freeRun = true
			for _, o := range ths {
				if !o.done {
					select {
					case o.resume <- struct{}{}:
					default:
					}
				}
			}
			deadline := time.After(20 * time.Second)
			for _, o := range ths {
				for !o.done {
					select {
					case ev := <-o.events:
						if ev.done {
							o.done, o.out = true, ev.out
						} else {
							select {
							case o.resume <- struct{}{}:
							default:
							}
						}
					case <-deadline:
						x.Deadlock = true
						o.done = true
						o.out = "<blocked forever>"
					}
				}
			}
		}
		if x.Unschedulable {
			break
		}
	}
	for i, t := range ths {
		x.Results[i] = t.out
		if !t.done {
			x.Results[i] = "<did not finish>"
		}
	}
	return x
}
