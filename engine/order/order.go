// Package order decides the total-preorder laws for ALL triples of a universe from the full sign
// matrix in O(N^2): M is a total preorder iff M[i][i]=0, M[i][j]=-M[j][i], and
// M[i][j] = sign(r(i)-r(j)) where r(i) = |{k : M[i][k] > 0}| (see DESIGN.md 3.3).
package order

import (
	"sort"

	"verif/engine/eco"
)

type Matrix struct {
	N      int
	M      []int8 // row-major, value clamp(raw) in {-1,0,1}; 2 = panic; 3 = out-of-range raw value
	Raw    map[[2]int]int
	Calls  int64
	Panics [][2]int
}

func (m *Matrix) At(i, j int) int8 { return m.M[i*m.N+j] }

// Build calls the real Compare for every ordered pair (both argument orders are separate calls).
func Build(vs []eco.Ver) *Matrix {
	n := len(vs)
	m := &Matrix{N: n, M: make([]int8, n*n), Raw: map[[2]int]int{}}
	for i := 0; i < n; i++ {
		row := m.M[i*n : (i+1)*n]
		for j := 0; j < n; j++ {
			c, p := eco.SafeCompare(vs[i], vs[j])
			m.Calls++
			switch {
			case p != nil:
				row[j] = 2
				if len(m.Panics) < 100 {
					m.Panics = append(m.Panics, [2]int{i, j})
				}
			case c < -1 || c > 1:
				row[j] = 3
				if len(m.Raw) < 100 {
					m.Raw[[2]int{i, j}] = c
				}
			default:
				row[j] = int8(c)
			}
		}
	}
	return m
}

type PairViolation struct {
	Kind string // "panic", "sign-range", "reflexive", "antisymmetry"
	I, J int
	Got  [2]int
}

// PairLaws checks range, reflexivity and antisymmetry on all pairs. limit caps the list (count is exact).
func (m *Matrix) PairLaws(limit int) (out []PairViolation, count int64) {
	n := m.N
	add := func(v PairViolation) {
		count++
		if len(out) < limit {
			out = append(out, v)
		}
	}
	for i := 0; i < n; i++ {
		for j := 0; j < n; j++ {
			a := m.M[i*n+j]
			if a == 2 {
				add(PairViolation{Kind: "panic", I: i, J: j})
				continue
			}
			if a == 3 {
				add(PairViolation{Kind: "sign-range", I: i, J: j, Got: [2]int{m.Raw[[2]int{i, j}], 0}})
				continue
			}
			if i == j && a != 0 {
				add(PairViolation{Kind: "reflexive", I: i, J: j, Got: [2]int{int(a), 0}})
			}
			if i < j {
				b := m.M[j*n+i]
				if b <= 1 && b >= -1 && a != -b {
					add(PairViolation{Kind: "antisymmetry", I: i, J: j, Got: [2]int{int(a), int(b)}})
				}
			}
		}
	}
	return
}

func sgn(x int) int8 {
	if x < 0 {
		return -1
	}
	if x > 0 {
		return 1
	}
	return 0
}

// Triple is a witness: a<=b, b<=c but not a<=c consistent (signs given).
type Triple struct {
	A, B, C       int
	AB, BC, AC    int8
	OffendingPair [2]int
}

// Rank checks the rank criterion on the sub-universe idx (indices into the matrix).
// It returns the ranks, the number of offending ordered pairs, and up to limit witness triples.
func (m *Matrix) Rank(idx []int, limit int) (rank []int, offending int64, wit []Triple) {
	n := m.N
	k := len(idx)
	rank = make([]int, k)
	for a, i := range idx {
		r := 0
		row := m.M[i*n : (i+1)*n]
		for _, j := range idx {
			if row[j] == 1 {
				r++
			}
		}
		rank[a] = r
	}
	for a, i := range idx {
		for b, j := range idx {
			got := m.M[i*n+j]
			if got > 1 {
				continue
			}
			want := sgn(rank[a] - rank[b])
			if got != want {
				offending++
				if len(wit) < limit {
					if t, ok := m.witness(idx, a, b); ok {
						wit = append(wit, t)
					}
				}
			}
		}
	}
	return
}

// witness finds k such that (i,j,k) in some rotation breaks transitivity, given that
// M[i][j] != sign(r_i - r_j).
func (m *Matrix) witness(idx []int, a, b int) (Triple, bool) {
	n := m.N
	i, j := idx[a], idx[b]
	le := func(x, y int) bool { return m.M[x*n+y] <= 0 } // x <= y
	lt := func(x, y int) bool { return m.M[x*n+y] < 0 }
	// Search every third element and every rotation for: x<=y, y<=z, and NOT (x<=z), or
	// x<=y, y<=z with one strict, and NOT (x<z).
	try := func(x, y, z int) (Triple, bool) {
		if le(x, y) && le(y, z) {
			strict := lt(x, y) || lt(y, z)
			if !le(x, z) || (strict && !lt(x, z)) {
				return Triple{A: x, B: y, C: z, AB: m.M[x*n+y], BC: m.M[y*n+z], AC: m.M[x*n+z], OffendingPair: [2]int{i, j}}, true
			}
		}
		return Triple{}, false
	}
	for _, k := range idx {
		for _, p := range [][3]int{{i, j, k}, {i, k, j}, {j, i, k}, {j, k, i}, {k, i, j}, {k, j, i}} {
			if t, ok := try(p[0], p[1], p[2]); ok {
				return t, true
			}
		}
	}
	return Triple{}, false
}

// Classes returns, for a sub-universe that passed Rank, the class index (dense, ascending) of
// each element and the number of classes.
func Classes(rank []int) (cls []int, n int) {
	uniq := map[int]bool{}
	for _, r := range rank {
		uniq[r] = true
	}
	var rs []int
	for r := range uniq {
		rs = append(rs, r)
	}
	sort.Ints(rs)
	pos := map[int]int{}
	for i, r := range rs {
		pos[r] = i
	}
	cls = make([]int, len(rank))
	for i, r := range rank {
		cls[i] = pos[r]
	}
	return cls, len(rs)
}
