// Package eco gives the checker one untyped view of the 20 type-isolated ecosystems.
// The registry constructs every package's Ecosystem{} directly; it deliberately does not go
// through the CLI's name table (that table is what C15/C17 verify).
package eco

import (
	"fmt"
	"reflect"

	"github.com/alowayed/go-univers/pkg/ecosystem/alpine"
	"github.com/alowayed/go-univers/pkg/ecosystem/alpm"
	"github.com/alowayed/go-univers/pkg/ecosystem/apache"
	"github.com/alowayed/go-univers/pkg/ecosystem/cargo"
	"github.com/alowayed/go-univers/pkg/ecosystem/composer"
	"github.com/alowayed/go-univers/pkg/ecosystem/conan"
	"github.com/alowayed/go-univers/pkg/ecosystem/cran"
	"github.com/alowayed/go-univers/pkg/ecosystem/debian"
	"github.com/alowayed/go-univers/pkg/ecosystem/gem"
	"github.com/alowayed/go-univers/pkg/ecosystem/gentoo"
	"github.com/alowayed/go-univers/pkg/ecosystem/github"
	"github.com/alowayed/go-univers/pkg/ecosystem/golang"
	"github.com/alowayed/go-univers/pkg/ecosystem/hex"
	"github.com/alowayed/go-univers/pkg/ecosystem/mattermost"
	"github.com/alowayed/go-univers/pkg/ecosystem/maven"
	"github.com/alowayed/go-univers/pkg/ecosystem/npm"
	"github.com/alowayed/go-univers/pkg/ecosystem/nuget"
	"github.com/alowayed/go-univers/pkg/ecosystem/pypi"
	"github.com/alowayed/go-univers/pkg/ecosystem/rpm"
	"github.com/alowayed/go-univers/pkg/ecosystem/semver"
	"github.com/alowayed/go-univers/pkg/univers"
)

// Ver is an opaque parsed version of one ecosystem.
type Ver interface {
	// Compare calls the real Compare. A panic is converted into PanicError (via panic).
	Compare(o Ver) int
	String() string
	Raw() any
}

// Rng is an opaque parsed range of one ecosystem.
type Rng interface {
	Contains(v Ver) bool
	String() string
	Raw() any
}

// Eco is the untyped view of one ecosystem.
type Eco interface {
	Name() string // the package's Name constant
	// DeclName is Ecosystem.Name() as the value itself reports.
	DeclName() string
	Parse(s string) (Ver, error)
	ParseRange(s string) (Rng, error)
	// ParseRaw returns (value is nil pointer?, error) without wrapping, for C06's value-xor-error check.
	ParseRawNil(s string) (isNil bool, err error)
	ParseRangeRawNil(s string) (isNil bool, err error)
	EcosystemValue() any
}

type ver[T univers.Version[T]] struct{ v T }

func (a ver[T]) Compare(o Ver) int { return a.v.Compare(o.(ver[T]).v) }
func (a ver[T]) String() string    { return a.v.String() }
func (a ver[T]) Raw() any          { return a.v }

type rng[T univers.Version[T], R univers.VersionRange[T]] struct{ r R }

func (a rng[T, R]) Contains(v Ver) bool { return a.r.Contains(v.(ver[T]).v) }
func (a rng[T, R]) String() string      { return a.r.String() }
func (a rng[T, R]) Raw() any            { return a.r }

type adapter[T univers.Version[T], R univers.VersionRange[T]] struct {
	name string
	e    univers.Ecosystem[T, R]
}

func (a *adapter[T, R]) Name() string     { return a.name }
func (a *adapter[T, R]) DeclName() string { return a.e.Name() }
func (a *adapter[T, R]) EcosystemValue() any {
	return a.e
}

func isNilValue(x any) bool {
	if x == nil {
		return true
	}
	rv := reflect.ValueOf(x)
	switch rv.Kind() {
	case reflect.Pointer, reflect.Map, reflect.Slice, reflect.Func, reflect.Interface, reflect.Chan:
		return rv.IsNil()
	}
	return false
}

func (a *adapter[T, R]) Parse(s string) (Ver, error) {
	v, err := a.e.NewVersion(s)
	if err != nil {
		return nil, err
	}
	if isNilValue(v) {
		return nil, fmt.Errorf("verif: nil value with nil error")
	}
	return ver[T]{v}, nil
}

func (a *adapter[T, R]) ParseRange(s string) (Rng, error) {
	r, err := a.e.NewVersionRange(s)
	if err != nil {
		return nil, err
	}
	if isNilValue(r) {
		return nil, fmt.Errorf("verif: nil value with nil error")
	}
	return rng[T, R]{r}, nil
}

func (a *adapter[T, R]) ParseRawNil(s string) (bool, error) {
	v, err := a.e.NewVersion(s)
	return isNilValue(v), err
}

func (a *adapter[T, R]) ParseRangeRawNil(s string) (bool, error) {
	r, err := a.e.NewVersionRange(s)
	return isNilValue(r), err
}

func mk[T univers.Version[T], R univers.VersionRange[T]](name string, e univers.Ecosystem[T, R]) Eco {
	return &adapter[T, R]{name: name, e: e}
}

// All returns the 20 ecosystems in alphabetical order of their Name constants.
func All() []Eco {
	return []Eco{
		mk(alpine.Name, &alpine.Ecosystem{}),
		mk(alpm.Name, &alpm.Ecosystem{}),
		mk(apache.Name, &apache.Ecosystem{}),
		mk(cargo.Name, &cargo.Ecosystem{}),
		mk(composer.Name, &composer.Ecosystem{}),
		mk(conan.Name, &conan.Ecosystem{}),
		mk(cran.Name, &cran.Ecosystem{}),
		mk(debian.Name, &debian.Ecosystem{}),
		mk(gem.Name, &gem.Ecosystem{}),
		mk(gentoo.Name, &gentoo.Ecosystem{}),
		mk(github.Name, &github.Ecosystem{}),
		mk(golang.Name, &golang.Ecosystem{}),
		mk(hex.Name, &hex.Ecosystem{}),
		mk(mattermost.Name, &mattermost.Ecosystem{}),
		mk(maven.Name, &maven.Ecosystem{}),
		mk(npm.Name, &npm.Ecosystem{}),
		mk(nuget.Name, &nuget.Ecosystem{}),
		mk(pypi.Name, &pypi.Ecosystem{}),
		mk(rpm.Name, &rpm.Ecosystem{}),
		mk(semver.Name, &semver.Ecosystem{}),
	}
}

// ByName returns the ecosystem with that Name constant, or nil.
func ByName(n string) Eco {
	for _, e := range All() {
		if e.Name() == n {
			return e
		}
	}
	return nil
}

// SchemeEco maps a VERS scheme to the ecosystem the specification assigns to it.
// (Written from the VERS spec / README table, not read from the code under test.)
var SchemeEco = map[string]string{
	"alpine": "alpine", "cargo": "cargo", "deb": "debian", "gem": "gem", "generic": "semver",
	"golang": "golang", "maven": "maven", "npm": "npm", "nuget": "nuget", "pypi": "pypi", "rpm": "rpm",
}

// Schemes lists the 11 supported VERS schemes in a fixed order.
var Schemes = []string{"alpine", "cargo", "deb", "gem", "generic", "golang", "maven", "npm", "nuget", "pypi", "rpm"}

// Safe helpers: every call into the implementation under recover.

type PanicError struct{ Val any }

func (p *PanicError) Error() string { return fmt.Sprintf("panic: %v", p.Val) }

func SafeParse(e Eco, s string) (v Ver, err error) {
	defer func() {
		if r := recover(); r != nil {
			v, err = nil, &PanicError{r}
		}
	}()
	return e.Parse(s)
}

func SafeParseRange(e Eco, s string) (v Rng, err error) {
	defer func() {
		if r := recover(); r != nil {
			v, err = nil, &PanicError{r}
		}
	}()
	return e.ParseRange(s)
}

// SafeCompare returns (sign, panicked).
func SafeCompare(a, b Ver) (c int, p *PanicError) {
	defer func() {
		if r := recover(); r != nil {
			c, p = 0, &PanicError{r}
		}
	}()
	return a.Compare(b), nil
}

func SafeContains(r Rng, v Ver) (c bool, p *PanicError) {
	defer func() {
		if x := recover(); x != nil {
			c, p = false, &PanicError{x}
		}
	}()
	return r.Contains(v), nil
}

func IsPanic(err error) bool {
	_, ok := err.(*PanicError)
	return ok
}
