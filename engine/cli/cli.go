// Package cli drives the real CLI: an overlay-built binary that serves argv vectors through the
// repository's run() in-process (fast path), and the plain binary as real processes.
package cli

import (
	"bufio"
	"encoding/json"
	"fmt"
	"os"
	"os/exec"
	"path/filepath"
)

type Resp struct {
	Code  int    `json:"code"`
	Out   string `json:"out"`
	Panic string `json:"panic,omitempty"`
}

type Server struct {
	cmd *exec.Cmd
	enc *json.Encoder
	dec *json.Decoder
	w   *bufio.Writer
}

func root() string {
	if r := os.Getenv("VERIF_ROOT"); r != "" {
		return r
	}
	return "/verif"
}

func binDir() string {
	if b := os.Getenv("VERIF_BIN"); b != "" {
		return b
	}
	return filepath.Join(root(), ".work")
}

func ServerPath() string { return filepath.Join(binDir(), "univers-server") }
func PlainPath() string  { return filepath.Join(binDir(), "univers") }

// Start launches the server binary.
func Start() (*Server, error) {
	cmd := exec.Command(ServerPath())
	cmd.Env = append(os.Environ(), "VERIF_CLI_SERVER=1")
	in, err := cmd.StdinPipe()
	if err != nil {
		return nil, err
	}
	out, err := cmd.StdoutPipe()
	if err != nil {
		return nil, err
	}
	cmd.Stderr = os.Stderr
	if err := cmd.Start(); err != nil {
		return nil, err
	}
	w := bufio.NewWriterSize(in, 1<<16)
	return &Server{cmd: cmd, enc: json.NewEncoder(w), dec: json.NewDecoder(bufio.NewReaderSize(out, 1<<16)), w: w}, nil
}

func (s *Server) Call(argv []string) (Resp, error) {
	if argv == nil {
		argv = []string{}
	}
	if err := s.enc.Encode(map[string]any{"argv": argv}); err != nil {
		return Resp{}, err
	}
	if err := s.w.Flush(); err != nil {
		return Resp{}, err
	}
	var r Resp
	if err := s.dec.Decode(&r); err != nil {
		return Resp{}, fmt.Errorf("cli server died: %w", err)
	}
	return r, nil
}

func (s *Server) Close() {
	if s.cmd != nil && s.cmd.Process != nil {
		s.cmd.Process.Kill()
		s.cmd.Wait()
	}
}

// RunProcess executes the plain binary as a real process.
func RunProcess(argv []string) (Resp, error) {
	cmd := exec.Command(PlainPath(), argv...)
	out, err := cmd.Output()
	code := 0
	if ee, ok := err.(*exec.ExitError); ok {
		code = ee.ExitCode()
	} else if err != nil {
		return Resp{}, err
	}
	return Resp{Code: code, Out: string(out)}, nil
}
