// Package cli drives the real CLI: an overlay-built binary that serves argv vectors through the
// repository's run() in-process (fast path), and the plain binary as real processes.
package cli

import (
	"bufio"
	"bytes"
	"encoding/json"
	"fmt"
	"os"
	"os/exec"
	"path/filepath"
	"strings"
	"time"
)

type Resp struct {
	Code  int    `json:"code"`
	Out   string `json:"out"`
	Panic string `json:"panic,omitempty"`
}

type Server struct {
	cmd    *exec.Cmd
	enc    *json.Encoder
	dec    *json.Decoder
	w      *bufio.Writer
	stderr *bytes.Buffer
}

func root() string {
	if r := os.Getenv("VERIF_ROOT"); r != "" {
		return r
	}
	return "/verif"
}

func binDir() string {
	if b := os.Getenv("VERIF_BIN"); b != "" {
		return b
	}
	return filepath.Join(root(), ".work")
}

func ServerPath() string { return filepath.Join(binDir(), "univers-server") }
func PlainPath() string  { return filepath.Join(binDir(), "univers") }

// Start launches the server binary.
func Start() (*Server, error) {
	s := &Server{}
	if err := s.start(); err != nil {
		return nil, err
	}
	return s, nil
}

func (s *Server) start() error {
	cmd := exec.Command(ServerPath())
	cmd.Env = append(os.Environ(), "VERIF_CLI_SERVER=1")
	in, err := cmd.StdinPipe()
	if err != nil {
		return err
	}
	out, err := cmd.StdoutPipe()
	if err != nil {
		return err
	}
	s.stderr = &bytes.Buffer{}
	cmd.Stderr = s.stderr
	if err := cmd.Start(); err != nil {
		return err
	}
	w := bufio.NewWriterSize(in, 1<<16)
	s.cmd, s.enc, s.dec, s.w = cmd, json.NewEncoder(w), json.NewDecoder(bufio.NewReaderSize(out, 1<<16)), w
	return nil
}

// CallTimeout bounds one call. A command line that the CLI answers in well under a millisecond
// and that has not been answered after a minute is a hang (or a deadlock the runtime did not
// see); the limit is far from any load effect and only turns "never" into an answer.
var CallTimeout = 60 * time.Second

// Call runs one argv vector through the CLI's run(). If the server process dies on it (a fatal
// runtime error such as "all goroutines are asleep", os.Exit inside run) or does not answer,
// that is a finding about this argv: it is returned as Resp.Panic, and a fresh server is
// started for the following calls.
func (s *Server) Call(argv []string) (Resp, error) {
	if argv == nil {
		argv = []string{}
	}
	type result struct {
		r   Resp
		err error
	}
	done := make(chan result, 1)
	go func() {
		if err := s.enc.Encode(map[string]any{"argv": argv}); err != nil {
			done <- result{err: err}
			return
		}
		if err := s.w.Flush(); err != nil {
			done <- result{err: err}
			return
		}
		var r Resp
		err := s.dec.Decode(&r)
		done <- result{r, err}
	}()
	var why string
	select {
	case res := <-done:
		if res.err == nil {
			return res.r, nil
		}
		s.cmd.Process.Kill()
		s.cmd.Wait()
		// only the headline of the runtime's report (the rest contains addresses and goroutine ids)
		headline := ""
		for _, l := range strings.Split(s.stderr.String(), "\n") {
			l = strings.TrimSpace(l)
			if headline == "" && l != "" {
				headline = l
			}
			if strings.HasPrefix(l, "fatal error:") || strings.HasPrefix(l, "panic:") {
				headline = l
				break
			}
		}
		why = "the CLI process died on this command line: " + headline
	case <-time.After(CallTimeout):
		s.cmd.Process.Kill()
		s.cmd.Wait()
		<-done
		why = fmt.Sprintf("no answer within %s (hang)", CallTimeout)
	}
	if err := s.start(); err != nil {
		return Resp{}, fmt.Errorf("cli server died and could not be restarted: %w", err)
	}
	return Resp{Code: -1, Panic: why}, nil
}

func (s *Server) Close() {
	if s.cmd != nil && s.cmd.Process != nil {
		s.cmd.Process.Kill()
		s.cmd.Wait()
	}
}

// RunProcess executes the plain binary as a real process.
func RunProcess(argv []string) (Resp, error) {
	cmd := exec.Command(PlainPath(), argv...)
	out, err := cmd.Output()
	code := 0
	if ee, ok := err.(*exec.ExitError); ok {
		code = ee.ExitCode()
	} else if err != nil {
		return Resp{}, err
	}
	return Resp{Code: code, Out: string(out)}, nil
}
