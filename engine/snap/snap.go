// Package snap hashes the memory reachable from a set of root values (including unexported
// fields, via reflect + unsafe), so that any write to a shared value or package-level variable
// shows up as a state change.
package snap

import (
	"hash/fnv"
	"math"
	"reflect"
	"regexp"
	"sort"
	"time"
	"unsafe"
)

type hasher struct {
	seen map[visit]bool
	// WithAddr includes pointer identities and slice capacity/backing-array identity, so that
	// re-allocations and appends into shared backing arrays are state changes.
	withAddr bool
}

type visit struct {
	p unsafe.Pointer
	t reflect.Type
}

var (
	regexpType = reflect.TypeOf((*regexp.Regexp)(nil))
	timeType   = reflect.TypeOf(time.Time{})
)

func mix(h uint64, x uint64) uint64 {
	h ^= x + 0x9e3779b97f4a7c15 + (h << 6) + (h >> 2)
	return h
}

func hashString(s string) uint64 {
	f := fnv.New64a()
	f.Write([]byte(s))
	return f.Sum64()
}

// Hash returns a hash of everything reachable from the roots (which should be pointers).
func Hash(withAddr bool, roots ...any) uint64 {
	hs := &hasher{seen: map[visit]bool{}, withAddr: withAddr}
	var h uint64 = 1469598103934665603
	for _, r := range roots {
		h = mix(h, hs.value(reflect.ValueOf(r)))
	}
	return h
}

func (hs *hasher) value(v reflect.Value) uint64 {
	if !v.IsValid() {
		return 7
	}
	t := v.Type()
	if t == regexpType {
		if v.IsNil() {
			return 11
		}
		// compiled regexps are immutable from the outside; their internals (machine caches) are not state
		re, ok := getIface(v).(*regexp.Regexp)
		if !ok || re == nil {
			return 13
		}
		return mix(13, hashString(re.String()))
	}
	if t == timeType {
		tm, ok := getIface(v).(time.Time)
		if !ok {
			return 17
		}
		return mix(17, uint64(tm.UnixNano()))
	}
	switch v.Kind() {
	case reflect.Bool:
		if v.Bool() {
			return 19
		}
		return 23
	case reflect.Int, reflect.Int8, reflect.Int16, reflect.Int32, reflect.Int64:
		return mix(29, uint64(v.Int()))
	case reflect.Uint, reflect.Uint8, reflect.Uint16, reflect.Uint32, reflect.Uint64, reflect.Uintptr:
		return mix(31, v.Uint())
	case reflect.Float32, reflect.Float64:
		return mix(37, math.Float64bits(v.Float()))
	case reflect.Complex64, reflect.Complex128:
		c := v.Complex()
		return mix(mix(41, math.Float64bits(real(c))), math.Float64bits(imag(c)))
	case reflect.String:
		return mix(43, hashString(v.String()))
	case reflect.Pointer:
		if v.IsNil() {
			return 47
		}
		p := v.UnsafePointer()
		k := visit{p, t}
		var h uint64 = 53
		if hs.withAddr {
			h = mix(h, uint64(uintptr(p)))
		}
		if hs.seen[k] {
			return mix(h, 59)
		}
		hs.seen[k] = true
		return mix(h, hs.value(v.Elem()))
	case reflect.Interface:
		if v.IsNil() {
			return 61
		}
		e := v.Elem()
		return mix(mix(67, hashString(e.Type().String())), hs.value(e))
	case reflect.Struct:
		var h uint64 = 71
		for i := 0; i < v.NumField(); i++ {
			f := v.Field(i)
			h = mix(h, hs.value(access(f)))
		}
		return h
	case reflect.Array:
		var h uint64 = 73
		for i := 0; i < v.Len(); i++ {
			h = mix(h, hs.value(v.Index(i)))
		}
		return h
	case reflect.Slice:
		if v.IsNil() {
			return 79
		}
		var h uint64 = 83
		h = mix(h, uint64(v.Len()))
		if hs.withAddr {
			h = mix(mix(h, uint64(v.Cap())), uint64(uintptr(v.UnsafePointer())))
		}
		// hash the whole capacity: writes beyond len (append into a shared backing array) are visible
		full := v
		if v.Cap() > v.Len() && v.CanAddr() || v.Cap() > v.Len() {
			func() {
				defer func() { recover() }()
				full = v.Slice3(0, v.Cap(), v.Cap())
			}()
		}
		for i := 0; i < full.Len(); i++ {
			h = mix(h, hs.value(full.Index(i)))
		}
		return h
	case reflect.Map:
		if v.IsNil() {
			return 89
		}
		var hsum []uint64
		it := v.MapRange()
		for it.Next() {
			hsum = append(hsum, mix(hs.value(it.Key()), hs.value(it.Value())))
		}
		sort.Slice(hsum, func(i, j int) bool { return hsum[i] < hsum[j] })
		var h uint64 = 97
		for _, x := range hsum {
			h = mix(h, x)
		}
		return mix(h, uint64(v.Len()))
	case reflect.Func, reflect.Chan, reflect.UnsafePointer:
		if v.IsNil() {
			return 101
		}
		return mix(103, uint64(uintptr(v.UnsafePointer())))
	}
	return 107
}

// access makes an unexported field readable.
func access(f reflect.Value) reflect.Value {
	if f.CanInterface() {
		return f
	}
	if f.CanAddr() {
		return reflect.NewAt(f.Type(), unsafe.Pointer(f.UnsafeAddr())).Elem()
	}
	// not addressable: copy into an addressable value
	c := reflect.New(f.Type()).Elem()
	defer func() { recover() }()
	c.Set(f)
	return c
}

func getIface(v reflect.Value) any {
	if v.CanInterface() {
		return v.Interface()
	}
	if v.CanAddr() {
		return reflect.NewAt(v.Type(), unsafe.Pointer(v.UnsafeAddr())).Elem().Interface()
	}
	return nil
}
