package snap

import "testing"

type seg struct {
	value string
	isNum bool
	n     int
}
type ver struct {
	segs []seg
	orig string
}
type con struct {
	op string
	v  *ver
}
type rng struct {
	cs   []*con
	orig string
}

func TestDetectsElementWrite(t *testing.T) {
	v := &ver{segs: []seg{{"1", true, 1}, {"rc", false, 0}, {"1", true, 1}}, orig: "x"}
	r := &rng{cs: []*con{{"~>", v}}}
	var root any = r
	h0 := Hash(true, root)
	v.segs[1] = seg{"1", true, 1}
	h1 := Hash(true, root)
	if h0 == h1 {
		t.Fatal("write to a slice element reachable through unexported fields not detected")
	}
	// append within capacity
	s := make([]seg, 1, 4)
	w := &ver{segs: s}
	h0 = Hash(true, w)
	_ = append(w.segs, seg{"z", false, 0})
	h1 = Hash(true, w)
	if h0 == h1 {
		t.Fatal("append into spare capacity not detected")
	}
}
