//go:build verif_instr

package steps

import "github.com/alowayed/go-univers/pkg/vpoint"

var count, budget int64

func init() {
	Available = true
	Begin = func(b int64) {
		count, budget = 0, b
		vpoint.Hook = func(int) {
			count++
			if budget > 0 && count > budget {
				vpoint.Hook = nil
				panic(&BudgetExceeded{budget})
			}
		}
	}
	End = func() int64 {
		vpoint.Hook = nil
		return count
	}
}
