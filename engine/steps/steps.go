// Package steps abstracts the injected statement counter. In the plain build no counter exists
// (Available=false); the instrumented build (tag verif_instr, built with -overlay) installs it.
package steps

// Available reports whether statement counting is compiled in.
var Available bool

// Begin starts counting with a budget (0 = unlimited); when the budget is exceeded the hook
// panics with *BudgetExceeded, which unwinds the call under test.
var Begin func(budget int64)

// End stops counting and returns the number of instrumented statements executed.
var End func() int64

type BudgetExceeded struct{ Budget int64 }

func (b *BudgetExceeded) Error() string { return "step budget exceeded" }
