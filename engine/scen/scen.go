// Package scen defines the shared-value scenarios of C19: for every ecosystem (and VERS) a set
// of shared Ecosystem / Version / VersionRange values and a menu of operations on them. The
// same bodies are used by the history search, the interleaving explorer and the free-running
// -race pass.
package scen

import (
	"fmt"
	"sort"
	"strings"

	"github.com/alowayed/go-univers/pkg/spec/vers"

	"verif/engine/eco"
	"verif/engine/gen"
)

// Shared holds the values every thread of a scenario uses.
type Shared struct {
	Scope string
	Eco   eco.Eco
	Vers  map[string]eco.Ver // by input text
	Rngs  map[string]eco.Rng
	order []string
}

// Roots returns the raw shared values (for snapshots), in a fixed order.
func (s *Shared) Roots() []any {
	var out []any
	if s.Eco != nil {
		out = append(out, s.Eco.EcosystemValue())
	}
	for _, k := range s.order {
		if v, ok := s.Vers[k]; ok {
			out = append(out, v.Raw())
		}
		if r, ok := s.Rngs["r:"+k]; ok {
			out = append(out, r.Raw())
		}
	}
	return out
}

// Op is one menu operation; it returns a rendering of its result.
type Op struct {
	Name string
	Run  func(s *Shared) string
	// Heavy operations (thousands of statements) take part in the history search and in the
	// race pass, not in the schedule enumeration.
	Heavy bool
}

type Scenario struct {
	Scope string
	Setup func() *Shared
	Ops   []Op
}

func res(v any, err error) string {
	if err != nil {
		return "error: " + err.Error()
	}
	return fmt.Sprint(v)
}

// collisionQuads searches a small universe for two different operand pairs whose concatenation
// with some separator is identical (the classic ambiguous cache key): (a,b) != (c,d), a+sep+b == c+sep+d.
func collisionQuads(e eco.Eco, cands []string) [][4]string {
	var ok []string
	for _, s := range cands {
		if _, err := eco.SafeParse(e, s); err == nil && len(s) <= 7 {
			ok = append(ok, s)
		}
		if len(ok) >= 160 {
			break
		}
	}
	var out [][4]string
	for _, sep := range []string{"", "-", ":", " ", ".", "|", ","} {
		seen := map[string][2]string{}
		found := 0
		for _, a := range ok {
			for _, b := range ok {
				k := a + sep + b
				if p, dup := seen[k]; dup {
					if p[0] != a {
						va, _ := eco.SafeParse(e, p[0])
						vb, _ := eco.SafeParse(e, p[1])
						vc, _ := eco.SafeParse(e, a)
						vd, _ := eco.SafeParse(e, b)
						c1, _ := eco.SafeCompare(va, vb)
						c2, _ := eco.SafeCompare(vc, vd)
						if c1 != c2 { // only useful if the two pairs have different answers
							out = append(out, [4]string{p[0], p[1], a, b})
							found++
						}
					}
				} else {
					seen[k] = [2]string{a, b}
				}
				if found >= 1 {
					break
				}
			}
			if found >= 1 {
				break
			}
		}
	}
	return out
}

// Cold, when set, makes scenario construction call nothing of the library (the collision search
// parses hundreds of versions): the cold-start race pass needs the first library call of the
// process to happen inside its goroutines.
var Cold bool

// ForEco builds the scenario of one ecosystem.
func ForEco(name string) Scenario {
	e := eco.ByName(name)
	b := gen.RangeBounds[name]
	syn := gen.SyntaxTable[name]
	va, vb, vc := b[0], b[1], b[2]
	// a structurally rich version (pre-release / suffix spelling) exercises more of Compare
	rich := b[len(b)-2]
	var r1, r2 string
	if len(syn.Ops) > 0 {
		r1 = ">=" + va + syn.SingleSuffix
		r2 = "<" + vc + syn.SingleSuffix
		if len(syn.And) > 0 && syn.SingleSuffix == "" {
			r2 = ">=" + va + syn.And[0] + "<" + vc
		}
	} else {
		r1, r2 = "["+va+","+vc+")", "(,"+vb+"]"
	}
	short := map[string]string{"npm": "^" + vb, "cargo": "~" + vb, "composer": "^" + vb, "conan": "~" + vb, "gem": "~>" + vb, "hex": "~>" + vb, "pypi": "~=" + vb, "nuget": "[" + va + "," + vc + "]", "maven": "[" + va + "],[" + vc + ",)"}
	r3, has3 := short[name]
	// the same shorthand on a structurally rich base (pre-release / suffix spelling)
	richBase := map[string]string{"npm": "^1.2.3-alpha.2", "cargo": "^1.2.3-alpha.2", "composer": "^1.2.3-beta1", "conan": "~1.2.3-alpha", "gem": "~>1.2.3.rc1", "hex": "~>1.2.3-rc.1", "pypi": "~=1.2.3.post1"}
	r4 := richBase[name]
	// an OR range whose LAST alternative is the one that admits vb (self-reordering alternative lists)
	r5 := ""
	if syn.Or != "" {
		r5 = "<" + va + " " + syn.Or + " >" + vc + " " + syn.Or + " =" + vb
	}
	var quads [][4]string
	if !Cold {
		quads = collisionQuads(e, gen.Uniq(gen.Versions(name, 0)))
	}
	inputs := []string{va, vb, vc, rich}
	// ecosystem-specific spellings whose comparison takes a different code path
	extra := map[string][]string{
		"golang":   {"v1.0.0-20170915032832-14c0d48ead0c", "v1.0.0-alpha", "v1.0.1-0.20190101000000-abcdefabcdef"},
		"github":   {"2024.01.15", "v2024.1.16"},
		"composer": {"dev-master", "dev-main"},
		"alpine":   {"1.0bc", "1.0_git20200101"},
		"pypi":     {"1.0.post1.dev1", "1!0.5+local.1"},
		"debian":   {"1:1.0~rc1-1", "18446744073709551616"},
		"rpm":      {"1:1.0~rc1-1", "1.0^git1"},
		"maven":    {"1.0-SNAPSHOT", "1.0.RC1"},
		"gem":      {"2.0.0.rc1", "1.0.0.beta.2"},
		"alpm":     {"1:1.0rc1-2", "1.0_1"},
		// two pre-releases of one core: the identifier lists themselves must be compared
		"semver":     {"1.2.3-alpha.10", "1.2.3-alpha.2.x", "1.2.3-beta"},
		"npm":        {"1.2.3-alpha.10", "1.2.3-alpha.2.x", "v1.2.3-beta"},
		"cargo":      {"1.2.3-alpha.10", "1.2.3-alpha.2.x", "1.2.3-beta"},
		"hex":        {"1.2.3-rc.10", "1.2.3-rc.2.x", "1.2.3-beta"},
		"nuget":      {"1.2.3-beta.10", "1.2.3-beta.2", "1.2.3.4-alpha"},
		"conan":      {"1.2.3-alpha.10", "1.2.3-alpha.2", "1.2.3-beta"},
		"apache":     {"1.2.3-RC10", "1.2.3-RC2", "1.2.3-M1"},
		"mattermost": {"1.2.3-rc10", "1.2.3-rc2", "v1.2.3-esr"},
		"gentoo":     {"1.2_rc10", "1.2_rc2", "1.2_p1-r1"},
		"cran":       {"1.2-10", "1.2.2", "1.2-3.1"},
	}[name]
	inputs = append(inputs, extra...)
	// the first bound with a pre-release and a post-release marker: equal numeric parts, so the
	// comparison is decided by the marker tables (first-use / cold-start state in those paths)
	preM := map[string]string{"semver": "-alpha", "npm": "-alpha", "cargo": "-alpha", "hex": "-alpha", "golang": "-alpha", "nuget": "-alpha", "conan": "-alpha", "pypi": "a1", "debian": "~rc1", "rpm": "~rc1",
		"maven": "-alpha", "gem": ".rc1", "alpine": "_rc1", "gentoo": "_rc1", "alpm": "rc1", "apache": "-RC1", "composer": "-beta", "github": "-rc.1", "mattermost": "-rc1"}[name]
	postM := map[string]string{"alpine": "_p1", "gentoo": "_p1", "debian": "-1", "rpm": "-1", "pypi": ".post1", "maven": "-sp1"}[name]
	var marked []string
	if preM != "" {
		marked = append(marked, va+preM)
	}
	if postM != "" {
		marked = append(marked, va+postM)
	}
	inputs = append(inputs, marked...)
	for _, sep := range []string{"-", ".", "_", ""} {
		inputs = append(inputs, va+sep+"nightly", va+sep+"canary")
	}
	if len(b) > 3 {
		inputs = append(inputs, b[3])
	}
	// the same numbers with more components (padding the shorter side must not touch it)
	longer := []string{vb + ".1", vb + ".0.1", vb + ".0.0.0.1"}
	inputs = append(inputs, longer...)
	for _, q := range quads {
		inputs = append(inputs, q[0], q[1], q[2], q[3])
	}
	setup := func() *Shared {
		s := &Shared{Scope: name, Eco: e, Vers: map[string]eco.Ver{}, Rngs: map[string]eco.Rng{}}
		for _, in := range inputs {
			if _, dup := s.Vers[in]; dup {
				continue
			}
			if v, err := e.Parse(in); err == nil {
				s.Vers[in] = v
				s.order = append(s.order, in)
			}
		}
		for _, r := range []string{r1, r2, r3, r4, r5} {
			if r == "" {
				continue
			}
			if rg, err := e.ParseRange(r); err == nil {
				s.Rngs["r:"+r] = rg
				s.order = append(s.order, r)
			}
		}
		sort.Strings(s.order)
		return s
	}
	cmp := func(x, y string) Op {
		return Op{Name: fmt.Sprintf("Compare(%q,%q)", x, y), Run: func(s *Shared) string {
			a, b := s.Vers[x], s.Vers[y]
			if a == nil || b == nil {
				return "n/a"
			}
			return fmt.Sprint(a.Compare(b))
		}}
	}
	contains := func(r, x string) Op {
		return Op{Name: fmt.Sprintf("Contains(%q,%q)", r, x), Run: func(s *Shared) string {
			rg, v := s.Rngs["r:"+r], s.Vers[x]
			if rg == nil || v == nil {
				return "n/a"
			}
			return fmt.Sprint(rg.Contains(v))
		}}
	}
	ops := []Op{
		{Name: fmt.Sprintf("NewVersion(%q)", rich), Run: func(s *Shared) string {
			v, err := s.Eco.Parse(rich)
			if err != nil {
				return res(nil, err)
			}
			return v.String()
		}},
		{Name: `NewVersion("not a version!")`, Run: func(s *Shared) string { _, err := s.Eco.Parse("not a version!"); return res("accepted", err) }},
		{Name: fmt.Sprintf("NewVersionRange(%q)", r2), Run: func(s *Shared) string {
			rg, err := s.Eco.ParseRange(r2)
			if err != nil {
				return res(nil, err)
			}
			v := s.Vers[vb]
			if v == nil {
				return rg.String()
			}
			return fmt.Sprint(rg.String(), rg.Contains(v))
		}},
		cmp(va, vb), cmp(vb, va), cmp(rich, vb), cmp(vb, rich), cmp(va, va),
		contains(r1, vb), contains(r2, vb), contains(r2, rich),
		{Name: "String", Run: func(s *Shared) string {
			out := ""
			if v := s.Vers[rich]; v != nil {
				out += v.String()
			}
			if r := s.Rngs["r:"+r2]; r != nil {
				out += "|" + r.String()
			}
			return out
		}},
	}
	if has3 {
		ops = append(ops, contains(r3, vb), contains(r3, vc))
	}
	if r4 != "" {
		ops = append(ops, contains(r4, vb), contains(r4, rich))
	}
	// a shorthand on a partial base followed by parsing the partial text as a version (parser
	// modes left switched on in the shared ecosystem value)
	if pb, ok := map[string][2]string{"npm": {"^", "1.2"}, "cargo": {"~", "1.2"}, "composer": {"^", "1.2"}, "conan": {"~", "1.2"}, "gem": {"~>", "1.2"}, "hex": {"~> ", "2.1"}, "pypi": {"~=", "2.2"}, "nuget": {"", "1.*"}}[name]; ok {
		rs, pv := pb[0]+pb[1], pb[1]
		ops = append(ops,
			Op{Name: fmt.Sprintf("NewVersionRange(%q)", rs), Run: func(s *Shared) string {
				rg, err := s.Eco.ParseRange(rs)
				if err != nil {
					return res(nil, err)
				}
				return rg.String()
			}},
			Op{Name: fmt.Sprintf("NewVersion(%q)", pv), Run: func(s *Shared) string {
				v, err := s.Eco.Parse(pv)
				if err != nil {
					return res(nil, err)
				}
				return v.String()
			}},
			Op{Name: fmt.Sprintf("NewVersionRange(%q)", ">="+va), Run: func(s *Shared) string {
				rg, err := s.Eco.ParseRange(">=" + va + syn.SingleSuffix)
				if err != nil {
					return res(nil, err)
				}
				return rg.String()
			}},
		)
	}
	for _, m := range marked {
		ops = append(ops, cmp(va, m), cmp(m, va))
	}
	if len(b) > 3 {
		ops = append(ops, contains(r1, b[3]), contains(r2, b[3]), cmp(vb, b[3]), cmp(b[3], vb))
	}
	// two words no qualifier table knows, in both orders (rank tables that grow on first sight)
	for _, sep := range []string{"-", ".", "_", ""} {
		u1, u2 := va+sep+"nightly", va+sep+"canary"
		if _, e1 := eco.SafeParse(e, u1); e1 == nil {
			if _, e2 := eco.SafeParse(e, u2); e2 == nil {
				ops = append(ops, cmp(u1, u2), cmp(u2, u1))
				break
			}
		}
	}
	// many comparisons of a deeply nested / very long version in ONE operation (depth counters,
	// recursion guards and scratch state that leak a little per call)
	deep := va + strings.Repeat("-0", 40) + "-1"
	ops = append(ops, Op{Name: "DeepCompare x40", Heavy: true, Run: func(s *Shared) string {
		d, err := s.Eco.Parse(deep)
		if err != nil {
			d, err = s.Eco.Parse(va + strings.Repeat(".0", 40) + ".1")
		}
		if err != nil {
			return "n/a"
		}
		a := s.Vers[va]
		out := 0
		for i := 0; i < 40; i++ {
			out += d.Compare(a) - a.Compare(d)
		}
		return fmt.Sprint(out)
	}})
	// many range constructions in one operation, then the shared ranges are asked again (arenas,
	// slabs and pools that are recycled while earlier values are still alive)
	ops = append(ops, Op{Name: "ManyRanges x80", Heavy: true, Run: func(s *Shared) string {
		n := 0
		for i := 0; i < 80; i++ {
			for _, r := range []string{r1, r2} {
				if r == "" {
					continue
				}
				if _, err := s.Eco.ParseRange(r); err == nil {
					n++
				}
			}
		}
		out := fmt.Sprint(n)
		for _, k := range s.order {
			if rg := s.Rngs["r:"+k]; rg != nil {
				if v := s.Vers[vb]; v != nil {
					out += fmt.Sprint("|", rg.Contains(v))
				}
			}
		}
		return out
	}})
	// a Compare-equal respelling of the first bound, parsed after it: both keep their own text
	if alt := map[string]string{"npm": "v1.0.0", "golang": "1.0.0", "nuget": "v1.0.0", "pypi": "1.0.0", "debian": "0:1.0", "rpm": "0:1.0", "maven": "1.0.0", "gem": "v1.0", "github": "v1.0.0", "mattermost": "v1.0.0", "composer": "v1.0.0", "alpm": "0:1.0", "gentoo": "1.0-r0", "alpine": "1.0-r0", "hex": "1.0.0+b", "cargo": "1.0.0+b", "semver": "1.0.0+b", "cran": "1-0", "conan": "1.0.0+b", "apache": "1.0.0"}[name]; alt != va {
		ops = append(ops, Op{Name: fmt.Sprintf("Respell(%q,%q)", va, alt), Run: func(s *Shared) string {
			x, e1 := s.Eco.Parse(va)
			y, e2 := s.Eco.Parse(alt)
			if e1 != nil || e2 != nil {
				return "n/a"
			}
			z, _ := s.Eco.Parse(va)
			return fmt.Sprint(x.String(), "|", y.String(), "|", z.String(), "|", x.Compare(y), "|", s.Vers[va].String())
		}})
	}
	for _, l := range longer {
		if _, err := eco.SafeParse(e, l); err == nil {
			ops = append(ops, cmp(vb, l), cmp(l, vb))
			break
		}
	}
	if r5 != "" {
		ops = append(ops, contains(r5, vb), contains(r5, va), contains(r5, vc))
	}
	if len(extra) >= 2 {
		ops = append(ops, cmp(extra[0], extra[1]), cmp(extra[1], extra[0]), contains(r1, extra[0]))
		if len(extra) >= 3 {
			ops = append(ops, cmp(extra[0], extra[2]))
		}
	}
	for _, q := range quads {
		ops = append(ops, cmp(q[0], q[1]), cmp(q[2], q[3]))
	}
	return Scenario{Scope: name, Setup: setup, Ops: ops}
}

// ForVers builds the VERS scenario (stateless functions: the shared state is the package itself).
func ForVers() Scenario {
	call := func(r, v string) Op {
		return Op{Name: fmt.Sprintf("vers.Contains(%q,%q)", r, v), Run: func(*Shared) string { return res(vers.Contains(r, v)) }}
	}
	ops := []Op{
		call("vers:npm/>=1.0.0|<2.0.0", "1.5.0"),
		call("vers:npm/>=1.0.0|<2.0.0", "2.5.0"),
		call("vers:deb/<1.0~rc1", "1.0~beta"),
		call("vers:pypi/>=1.0|!=1.5", "1.5"),
		call("vers:maven/>=1.0|<3.0", "2.0"),
		call("vers:npm/>=1.0|<3.0", "2.0"), // same constraint text, invalid for npm
		call("vers:maven/>=0.5.0|<1.0.0-sp|<1.0.0", "1.0.0"),
		call("vers:npm/>=0.5.0|<1.0.0-sp|<1.0.0", "1.0.0-zz"),
		call("vers:deb/>=1.0.0-alpha|<1.0.0-beta|>=1.0.0|<2.0.0", "1.0.0-rc1"),
		call("vers:generic/>=1.0.0-alpha|<1.0.0-beta|>=1.0.0|<2.0.0", "1.0.0-rc1"),
		call("vers:gem/<1.0|>=2.0|<3.0", "0.5"),
		call("vers:nope/>=1", "1"),
		call("vers:golang/>=v1.0.0|<v2.0.0", "v1.0.1-0.20200101000000-abcdef123456"),
		call("vers:rpm/>=1.0~rc1|<1.0", "1.0~rc2"),
		// a call rejected at its LAST constraint, and valid ranges that share its first constraints
		// (state left behind by the error path)
		call("vers:npm/>=1.0.0|<not-a-version", "1.5.0"),
		call("vers:npm/>=1.0.0|<2.0.0", "0.5.0"),
		call("vers:npm/>=1.0.0|<=2.0.0", "0.5.0"),
		call("vers:deb/>=1.0|<2.0|>=3.0|<", "1.5"),
		call("vers:deb/>=1.0|<2.0|>=3.0|<4.0", "0.5"),
		call("vers:deb/>=1.0|<2.0|>=3.0|<4.0", "2.5"),
	}
	return Scenario{Scope: "vers", Setup: func() *Shared { return &Shared{Scope: "vers"} }, Ops: ops}
}

// All returns the 21 scenarios.
func All() []Scenario {
	var out []Scenario
	for _, n := range gen.EcoNames {
		out = append(out, ForEco(n))
	}
	return append(out, ForVers())
}

func ByScope(scope string) (Scenario, bool) {
	if scope == "vers" {
		return ForVers(), true
	}
	for _, n := range gen.EcoNames {
		if n == scope {
			return ForEco(n), true
		}
	}
	return Scenario{}, false
}

// SafeRun runs an operation under recover.
func SafeRun(op Op, s *Shared) (out string) {
	defer func() {
		if r := recover(); r != nil {
			out = "panic: " + strings.SplitN(fmt.Sprint(r), "\n", 2)[0]
		}
	}()
	return op.Run(s)
}
