// Package gen holds the generators: a tiny grammar algebra whose languages are enumerated
// completely up to the bounds written into each grammar, and all-strings enumeration over a
// token alphabet. Stats counts what was enumerated (states = distinct strings, transitions =
// token appends) so that evidence numbers are measured, not declared.
package gen

import "sort"

type Stats struct {
	States      int64 // distinct strings produced
	Transitions int64 // token appends performed
}

var S Stats

// G is a finite language, materialised.
type G []string

func Lit(s ...string) G { return G(s) }

func Alt(gs ...G) G {
	var out G
	for _, g := range gs {
		out = append(out, g...)
	}
	return out
}

func Opt(g G) G { return Alt(Lit(""), g) }

// Seq is concatenation (cartesian product, left to right).
func Seq(gs ...G) G {
	out := G{""}
	for _, g := range gs {
		next := make(G, 0, len(out)*len(g))
		for _, p := range out {
			for _, s := range g {
				next = append(next, p+s)
				S.Transitions++
			}
		}
		out = next
	}
	return out
}

// Rep is g repeated min..max times.
func Rep(g G, min, max int) G {
	var out G
	cur := G{""}
	for i := 0; i <= max; i++ {
		if i >= min {
			out = append(out, cur...)
		}
		if i < max {
			cur = Seq(cur, g)
		}
	}
	return out
}

// Join is g (sep g){min-1..max-1}.
func Join(g G, sep G, min, max int) G {
	var out G
	cur := g
	for i := 1; i <= max; i++ {
		if i >= min {
			out = append(out, cur...)
		}
		if i < max {
			cur = Seq(cur, sep, g)
		}
	}
	return out
}

// AllStrings enumerates every concatenation of 0..L tokens of the alphabet.
func AllStrings(alpha []string, L int) G {
	out := G{""}
	level := G{""}
	for i := 0; i < L; i++ {
		next := make(G, 0, len(level)*len(alpha))
		for _, p := range level {
			for _, a := range alpha {
				next = append(next, p+a)
				S.Transitions++
			}
		}
		out = append(out, next...)
		level = next
	}
	return out
}

// Chars splits a string into its one-byte tokens.
func Chars(s string) []string {
	out := make([]string, 0, len(s))
	for i := 0; i < len(s); i++ {
		out = append(out, s[i:i+1])
	}
	return out
}

// Uniq removes duplicates and sorts shortest-first, then bytewise (so the first counterexample
// is also the shortest).
func Uniq(g G) G {
	seen := make(map[string]struct{}, len(g))
	out := make(G, 0, len(g))
	for _, s := range g {
		if _, ok := seen[s]; !ok {
			seen[s] = struct{}{}
			out = append(out, s)
		}
	}
	sort.Slice(out, func(i, j int) bool {
		if len(out[i]) != len(out[j]) {
			return len(out[i]) < len(out[j])
		}
		return out[i] < out[j]
	})
	return out
}

// Number token sets.
var (
	NumSmall = Lit("0", "1", "2", "10")
	NumTiny  = Lit("0", "1")
	// Magnitudes: values at which packed keys, narrowed integers and digit-count shortcuts change behaviour.
	Magnitudes = Lit("0", "1", "2", "9", "10", "65535", "65536", "65537", "131072", "20240101", "2147483648", "4294967296", "4294967297", "9007199254740992", "9007199254740993", "9223372036854775806", "9223372036854775807", "9223372036854775808")
	// LeadingZeros: zero-padded spellings (octal readers, fraction rules, width-dependent compares)
	LeadingZeros = Lit("00", "01", "07", "08", "09", "010", "0010", "011")
	NumBoundary  = Lit("0", "1", "2", "9", "10", "11", "99", "100", "999", "1000", "65535", "2147483647")
	NumLeadZero  = Lit("00", "01", "010")
	NumOverflow  = Lit("2147483648", "9223372036854775807", "9223372036854775808", "18446744073709551615", "18446744073709551616", "000000000000000000002")
)

// Nums returns the number tokens for a tier-dependent richness level.
// 0: tiny; 1: small; 2: small+leading zeros; 3: small + leading zeros + overflow probes.
func Nums(level int) G {
	switch level {
	case 0:
		return NumTiny
	case 1:
		return NumSmall
	case 2:
		return Alt(NumSmall, NumLeadZero)
	default:
		return Alt(NumSmall, NumLeadZero, NumOverflow)
	}
}

// Cases returns the word in lower, UPPER and Capitalised spelling.
func Cases(words ...string) G {
	var out G
	for _, w := range words {
		out = append(out, w)
		up := []byte(w)
		for i := range up {
			if up[i] >= 'a' && up[i] <= 'z' {
				up[i] -= 32
			}
		}
		out = append(out, string(up))
		if len(w) > 1 {
			c := []byte(w)
			if c[0] >= 'a' && c[0] <= 'z' {
				c[0] -= 32
			}
			out = append(out, string(c))
		}
	}
	return out
}

// Slot tokens: what a single numeric run, letter run or separator of a base version is replaced by.
var (
	SlotNums  = []string{"0", "1", "2", "9", "10", "11", "99", "100", "01", "010", "007", "08", "65535", "65536", "65537", "131072", "20240101", "2147483647", "2147483648", "4294967296", "9007199254740992", "9007199254740993", "9223372036854775806", "9223372036854775807", "9223372036854775808", "18446744073709551616"}
	SlotWords = []string{"a", "b", "z", "A", "Z", "x", "X", "v", "alpha", "beta", "rc", "RC", "Rc", "dev", "pre", "post", "p", "r", "and", "or", "candidate", "prerelease", "final", "ga", "sp", "snapshot", "SNAPSHOT", "git", "cvs", "foo", "m", "cr"}
	SlotSeps  = []string{".", "-", "_", "+", "~", "^", ":", "!", ""}
)

func isDigit(c byte) bool  { return c >= '0' && c <= '9' }
func isLetter(c byte) bool { return c >= 'a' && c <= 'z' || c >= 'A' && c <= 'Z' }

// SlotMutations returns every one-slot substitution of base: each maximal digit run replaced by
// each numeric token, each maximal letter run by each word token, each separator character by
// each other separator, plus each word token appended after each separator (a new trailing slot).
func SlotMutations(base string) []string {
	var out []string
	i := 0
	for i < len(base) {
		j := i
		switch {
		case isDigit(base[i]):
			for j < len(base) && isDigit(base[j]) {
				j++
			}
			for _, t := range SlotNums {
				out = append(out, base[:i]+t+base[j:])
			}
		case isLetter(base[i]):
			for j < len(base) && isLetter(base[j]) {
				j++
			}
			for _, t := range SlotWords {
				out = append(out, base[:i]+t+base[j:])
			}
		default:
			j = i + 1
			for _, t := range SlotSeps {
				out = append(out, base[:i]+t+base[j:])
			}
		}
		i = j
	}
	for _, sep := range []string{".", "-", "_", "+", "~", "^", ""} {
		for _, t := range SlotWords {
			out = append(out, base+sep+t)
		}
		for _, t := range []string{"0", "1", "10", "01", "65536"} {
			out = append(out, base+sep+t)
		}
	}
	return out
}

// SlotFamily: the one-slot substitutions of all range bounds of an ecosystem (its typical shapes).
func SlotFamily(name string) G {
	var g G
	bases := append([]string{}, RangeBounds[name]...)
	if cb, ok := CaseBounds[name]; ok {
		bases = append(bases, cb)
	}
	for _, b := range bases {
		g = append(g, SlotMutations(b)...)
	}
	return g
}
