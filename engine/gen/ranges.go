package gen

// Range syntax tables (written from each ecosystem's documentation, DESIGN.md Appendix B) and the
// range-string generator built on them.

type Syntax struct {
	Ops  []string // comparators, longest first
	And  []string // AND separators as written between two comparators
	Or   string   // OR separator ("" if none)
	Nots []string // the subset of Ops that mean "not equal"
	// SingleSuffix is appended to a lone comparator (nuget comparators exist only in comma lists).
	SingleSuffix string
}

var SyntaxTable = map[string]Syntax{
	"alpine":     {Ops: []string{">=", "<=", "!=", ">", "<", "="}, And: []string{" "}},
	"alpm":       {Ops: []string{">=", "<=", ">", "<", "="}, And: []string{" "}},
	"apache":     {Ops: []string{">=", "<=", ">", "<", "="}, And: []string{" "}},
	"cargo":      {Ops: []string{">=", "<=", "!=", ">", "<", "="}, And: []string{",", ", "}},
	"composer":   {Ops: []string{">=", "<=", "!=", "<>", "==", ">", "<", "="}, And: []string{" ", ",", ", "}, Or: "||"},
	"conan":      {Ops: []string{">=", "<=", "!=", ">", "<", "="}, And: []string{" ", ",", ", "}, Or: "||"},
	"cran":       {Ops: []string{">=", "<=", "!=", ">", "<", "="}, And: []string{",", ", "}},
	"debian":     {Ops: []string{">=", "<=", ">>", "<<", "!=", ">", "<", "="}, And: []string{",", ", "}},
	"gem":        {Ops: []string{">=", "<=", "!=", ">", "<", "="}, And: []string{",", ", "}},
	"gentoo":     {Ops: []string{">=", "<=", "!=", ">", "<", "="}, And: []string{" ", ",", ", "}},
	"github":     {Ops: []string{">=", "<=", ">", "<", "="}, And: []string{" "}},
	"golang":     {Ops: []string{">=", "<=", "!=", ">", "<", "="}, And: []string{" "}},
	"hex":        {Ops: []string{">=", "<=", ">", "<", "="}, And: []string{" ", " and "}},
	"mattermost": {Ops: []string{">=", "<=", ">", "<", "="}, And: []string{" "}},
	"maven":      {},
	"npm":        {Ops: []string{">=", "<=", ">", "<", "="}, And: []string{" "}, Or: "||"},
	"nuget":      {Ops: []string{">=", "<=", "!=", ">", "<", "="}, And: []string{","}, SingleSuffix: ","},
	"pypi":       {Ops: []string{">=", "<=", "==", "!=", ">", "<"}, And: []string{",", ", "}},
	"rpm":        {Ops: []string{">=", "<=", "!=", ">", "<", "="}, And: []string{" ", ",", ", "}},
	"semver":     {Ops: []string{">=", "<=", "!=", ">", "<", "="}, And: []string{" ", ",", ", "}},
}

// Nots0 returns the ecosystem's first "not equal" comparator, or "".
func (s Syntax) Nots0() string {
	for _, o := range s.Ops {
		if OpMeaning(o) == "!=" {
			return o
		}
	}
	return ""
}

// OpMeaning maps a comparator spelling to its canonical relation.
func OpMeaning(op string) string {
	switch op {
	case ">>":
		return ">"
	case "<<":
		return "<"
	case "==":
		return "="
	case "<>":
		return "!="
	}
	return op
}

// Sat evaluates a canonical relation on a comparison sign (sign of Compare(v, bound)).
func Sat(op string, c int) bool {
	switch OpMeaning(op) {
	case "=":
		return c == 0
	case "!=":
		return c != 0
	case ">":
		return c > 0
	case ">=":
		return c >= 0
	case "<":
		return c < 0
	case "<=":
		return c <= 0
	}
	return false
}

// RangeBounds are valid bound versions per ecosystem used to instantiate range templates.
var RangeBounds = map[string][]string{
	"alpine":     {"1.0", "1.2.3", "2.0", "1.2.3-r1", "1.2_rc1", "1.2_p1", "1.10"},
	"alpm":       {"1.0", "1.2.3", "2.0", "1.2.3-1", "1:1.0-1", "1.0rc1", "1.10"},
	"apache":     {"1.0.0", "1.2.3", "2.0.0", "1.2.3-RC1", "1.2.3-alpha", "1.10.0"},
	"cargo":      {"1.0.0", "1.2.3", "2.0.0", "0.2.3", "0.0.3", "1.2.3-alpha.2", "1.10.0"},
	"composer":   {"1.0.0", "1.2.3", "2.0", "0.3", "1.2.3-beta1", "1.0b1", "v1.5", "1.10.0"},
	"conan":      {"1.0.0", "1.2.3", "2.0", "0.2.3", "1.2.3-alpha", "1.2", "1.10.0"},
	"cran":       {"1.0", "1.2.3", "2.0", "1.2-3", "0.9", "1.10"},
	"debian":     {"1.0", "1.2.3", "2.0", "1.2.3-1", "1:1.0", "1.0~rc1", "1.10"},
	"gem":        {"1.0", "1.2.3", "2.0", "1.2", "0.9", "1.2.3.rc1", "1.0.0-alpha", "1.10.0"},
	"gentoo":     {"1.0", "1.2.3", "2.0", "1.2.3-r1", "1.2_rc1", "1.2_p1", "1.10"},
	"github":     {"1.0.0", "v1.2.3", "2.0.0", "v1.2.3-rc.1", "1.2.3-beta", "1.10.0"},
	"golang":     {"v1.0.0", "v1.2.3", "v2.0.0", "1.2.3", "v1.2.3-rc.1", "v1.10.0"},
	"hex":        {"1.0.0", "1.2.3", "2.0.0", "0.2.3", "1.2.3-rc.1", "2.1", "1.10.0"},
	"mattermost": {"1.0.0", "v1.2.3", "2.0.0", "1.2.3-rc1", "1.2.3-esr", "1.10.0"},
	"maven":      {"1.0", "1.2.3", "2.0", "1.2.3-SNAPSHOT", "1.0-alpha-1", "1.2.3-sp1", "1.10"},
	"npm":        {"1.0.0", "1.2.3", "2.0.0", "0.2.3", "0.0.3", "1.2.3-alpha.2", "v1.5.0", "1.10.0"},
	"nuget":      {"1.0.0", "1.2.3", "2.0", "1.2.3.4", "1.2.3-beta", "1", "1.10.0"},
	"pypi":       {"1.0", "1.2.3", "2.0", "2.2", "1.2.3a1", "1.2.3.post1", "1!1.0", "1.10"},
	"rpm":        {"1.0", "1.2.3", "2.0", "1.2.3-1", "1:1.0", "1.0~rc1", "1.10"},
	"semver":     {"1.0.0", "1.2.3", "2.0.0", "0.2.3", "1.2.3-alpha.2", "1.10.0"},
}

// CaseBounds: one bound with upper-case letters per ecosystem that accepts letters (ranges that
// case-fold their text, String() that loses the spelling).
var CaseBounds = map[string]string{"alpm": "1.0RC1", "apache": "1.2.3-Beta2", "cargo": "1.2.3-RC.1", "composer": "1.2.3-RC1", "conan": "1.2.3-RC1", "debian": "1.0A", "gem": "1.2.3.RC1",
	"github": "v1.2.3-RC.1", "golang": "v1.2.3-RC.1", "hex": "1.2.3-RC.1", "mattermost": "1.2.3-RC1", "maven": "1.2.3-Final", "npm": "1.2.3-RC.1", "nuget": "1.2.3-Beta", "pypi": "1.2.3RC1", "rpm": "1.0A", "semver": "1.2.3-RC.1"}

// Ranges returns candidate range strings for an ecosystem (filtered by the real parser elsewhere).
func Ranges(name string, level int) G {
	syn := SyntaxTable[name]
	b := Lit(RangeBounds[name]...)
	if cb, ok := CaseBounds[name]; ok {
		b = append(b, cb)
	}
	b2 := Lit(RangeBounds[name][:3]...)
	ops := Lit(syn.Ops...)
	var g G
	// single comparators, with and without a space after the operator; bare versions
	g = Alt(g, Seq(ops, Opt(Lit(" ")), b), b)
	// AND pairs
	for _, sep := range syn.And {
		g = Alt(g, Seq(ops, b2, Lit(sep), ops, b2))
		// the same pair with a widened separator (texts that differ only in internal spacing)
		switch sep {
		case " ":
			g = Alt(g, Seq(Lit(">="), b2, Lit("  ", "   "), Lit("<"), b2))
		case ",":
			g = Alt(g, Seq(Lit(">="), b2, Lit(" , ", ",  ", " ,"), Lit("<"), b2))
		}
		if level > 0 {
			g = Alt(g, Seq(Lit(">=", ">"), b2, Lit(sep), Lit("<", "<="), b2, Lit(sep), Lit("!=", syn.Ops[len(syn.Ops)-1]), b2))
		}
	}
	// OR groups
	if syn.Or != "" {
		g = Alt(g, Seq(ops, b2, Lit(" "+syn.Or+" ", syn.Or), ops, b2),
			Seq(Lit(">="), b2, Lit(syn.And[0]), Lit("<"), b2, Lit(" "+syn.Or+" "), Lit(">=", "="), b2))
	}
	// shorthands
	partial := Lit("1", "1.2", "0", "0.2", "0.0", "2", "1.2.3", "0.0.3", "0.2.3", "1.0.0", "2.1", "2.2")
	switch name {
	case "npm":
		g = Alt(g, Seq(Lit("^", "~"), Alt(b, partial)), Lit("*", "1.x", "1.X", "1.2.x", "0.x", "x", "1.x.x", "1.*", "1.2.*", ""),
			Seq(b2, Lit(" - "), b2), Lit("1.2 - 2", "1.0.0 - 2.0.0 || 3.0.0", "^1.2.3 || ~2.0.0", ">=1.0.0 <2.0.0 || >=3.0.0", "(>=1.0.0)", "^1.2.3-alpha.2", "~1.2.3-alpha.2", "^0.0.3-beta"))
	case "cargo":
		g = Alt(g, Seq(Lit("^", "~"), Alt(b, partial)), Lit("*", "1.*", "1.2.*", "0.*", "1.*.*"), Seq(Lit("^1.2, <1.5", ">=1.2.3, <2.0.0, !=1.5.0", "~1.2.3-alpha.2", "^0.0.3-beta", "^1.0.0-alpha.2")))
	case "composer":
		g = Alt(g, Seq(Lit("^", "~"), Alt(b, partial)), Lit("*", "1.*", "1.2.*", "1.x", "1.2.x", "0.*"),
			Seq(b2, Lit(" - "), b2), Lit("1.0 - 2.0", "^1.0 || ^2.0", "^1.0|^2.0", ">=1.0 <2.0 || >=3.0", "^1.0@dev", "1.0.*@beta", "dev-master", "^1.0b1", "~1.0b1", ">=1.0,<2.0"))
	case "conan":
		g = Alt(g, Seq(Lit("^", "~"), Alt(b, partial)), Lit("*", ">=1.0 <2.0 || >=3.0", "~1.2 || ^2", "[>=1.0 <2.0]", "~01.2"))
	case "gem":
		g = Alt(g, Seq(Lit("~>", "~> "), Alt(b, partial)), Lit("~> 1.2, >= 1.2.5", "~>1.2.3.4", "~>0", ">= 1.0, < 2.0, != 1.5"))
	case "hex":
		g = Alt(g, Seq(Lit("~>", "~> "), Alt(b, partial)), Lit("~> 1.2 and >= 1.2.5", ">= 1.0.0 and < 2.0.0", "~> 2.1.0-rc.1"))
	case "pypi":
		g = Alt(g, Seq(Lit("~=", "~= "), Alt(b, partial)), Seq(Lit("==", "!="), Lit("1.*", "1.2.*", "0.*", "2.2.*", "1.2.3.*")),
			Lit("===1.0", "===1.2.3", "=== 1.0", "~=2.2, !=2.5", "==1.2.*, !=1.2.3", ">=1.0, <2.0, !=1.5", "~=1.2.3.post1", "~=1!1.0"))
	case "nuget", "maven":
		lo, hi := Lit("1.0", "1.2.3", "1.0.0"), Lit("2.0", "1.2.3", "2.0.0")
		g = Alt(g,
			Seq(Lit("[", "("), lo, Lit(","), hi, Lit("]", ")")),
			Seq(Lit("[", "("), lo, Lit(",)", ",]")),
			Seq(Lit("(,", "[,"), hi, Lit("]", ")")),
			Seq(Lit("["), b, Lit("]")),
			Seq(Lit("[1.0, 2.0]", "[ 1.0 , 2.0 )", "(,)", "[,]", "[1.0]", "(1.0)", "[2.0,1.0]", "[1.0,2.0,3.0]")),
		)
		if name == "maven" {
			g = Alt(g, Lit("[1.0,2.0),[3.0,4.0]", "(,1.0],[2.0,)", "[1.0],[2.0]", "[1.0,2.0),(2.0,3.0]", "(,1.0),(1.0,)"))
		}
		if name == "nuget" {
			g = Alt(g, Lit("1.*", "1.2.*", "*", ">=1.0,<2.0", ">1.0,", "<2.0,", ">=1.0.0,<=2.0.0,!=1.5.0"))
		}
	case "semver":
		g = Alt(g, Lit("*", ">=1.0.0 <2.0.0", ">=1.0.0, <2.0.0", ">=1.0.0 <2.0.0 !=1.5.0"))
	case "debian":
		g = Alt(g, Lit(">= 1.0, << 2.0", ">> 1.0", "<< 2.0~"))
	}
	return g
}
