package gen

// Candidate version strings per ecosystem: a grammar enumerated completely to its written bounds,
// united with every string of length <= L over the ecosystem's lexical alphabet. Candidates are
// filtered by the real parser elsewhere; only accepted strings enter a universe.

// level 0 = quick, 1 = thorough.

func dotted(n G, min, max int) G { return Join(n, Lit("."), min, max) }

func pick2(level int, q, t G) G {
	if level == 0 {
		return q
	}
	return t
}

func pick(level int, q, t int) int {
	if level == 0 {
		return q
	}
	return t
}

// semverish builds core[-pre][+build] with the shared SemVer-family shapes.
func semverish(level int, prefixes G, arMin, arMax int) G {
	core := dotted(Lit("0", "1", "2", "10"), arMin, arMax)
	coreTiny := dotted(Lit("0", "1"), arMin, arMax)
	ids := Lit("0", "1", "2", "10", "alpha", "beta", "rc", "a", "A", "B", "Beta", "Alpha", "RC", "x", "-5", "a-b", "0a", "1a", "01", "99999999999999999", "18446744073709551616", "pseudo", "dev")
	pre1 := Seq(Lit("-"), ids)
	pre2 := Seq(Lit("-"), Lit("0", "1", "alpha", "rc", "x", "-5"), Lit("."), Lit("0", "1", "2", "10", "beta", "a", "x", "X"))
	build := Lit("+b", "+1.x-y", "+001", "+build.x")
	out := Alt(
		Seq(prefixes, core),
		Seq(prefixes, coreTiny, pre1),
		Seq(prefixes, Lit("1.0.0", "1.2.3", "0.0.0"), pre2),
		Seq(prefixes, Lit("1.0.0", "1.2.3"), Opt(Lit("-alpha", "-rc.1")), build),
		// components around 2^16 and 2^32 (packed-key and narrowing bugs)
		Seq(prefixes, Lit("1.0.10", "1.0.65535", "1.0.65536", "1.0.65541", "1.0.65636", "1.1.65536", "1.65536.0", "1.65537.0", "1.65536.1", "65536.0.0", "1.0.4294967296", "1.4294967297.0", "1.0.1.10", "1.0.1.65541", "1.0.1.65636", "1.0.2")),
		// numeric oddities in the core
		Seq(prefixes, Lit("01.0.0", "1.01.0", "1.0.01", "00.0.0", "2147483647.0.0", "2147483648.0.0", "9223372036854775807.0.0", "9223372036854775808.0.0", "18446744073709551616.0.0", "1.0.000000000000000000002")),
	)
	// pre-release lists of 5, 6 and 8 identifiers (fixed-size scratch arrays)
	bit := Lit("0", "1")
	long := func(n int) G { return Seq(prefixes[:1], Lit("1.0.0-"), Join(bit, Lit("."), n, n)) }
	out = Alt(out, long(5), long(6), Seq(prefixes[:1], Lit("1.0.0-"), Join(Lit("1", "a"), Lit("."), 8, 8)))
	for _, n := range []int{9, 17, 33} {
		ones := "1.0.0-1"
		for i := 1; i < n; i++ {
			ones += ".1"
		}
		out = Alt(out, Seq(prefixes[:1], Lit(ones, ones[:len(ones)-1]+"2", ones[:len(ones)-1]+"a", ones[:len(ones)-2])))
	}
	if level > 0 {
		pre3 := Seq(Lit("-"), Lit("0", "1", "a", "-"), Rep(Seq(Lit("."), Lit("0", "1", "a", "-")), 0, 3))
		coreT := core
		if arMax > 3 {
			coreT = Alt(dotted(Lit("0", "1", "10"), arMin, 3), dotted(Lit("0", "1"), 4, 4))
		}
		out = Alt(out, Seq(prefixes, Lit("1.0.0"), pre3), Seq(prefixes, coreT, pre1))
	}
	return out
}

// Versions returns candidate strings for an ecosystem.
func Versions(name string, level int) G {
	var g G
	n := Nums(2)
	switch name {
	case "alpine":
		nums := Lit("0", "1", "2", "10", "01", "010", "2147483647")
		core := dotted(nums, 1, pick(level, 2, 3))
		core = Alt(core, dotted(Lit("0", "1", "01"), 3, 3))
		if level > 0 {
			core = Alt(core, dotted(Lit("0", "1", "10"), 4, 5))
		}
		letter := Opt(Lit("a", "b", "z"))
		sfxName := Lit("alpha", "beta", "pre", "rc", "cvs", "svn", "git", "hg", "p", "foo", "zeta")
		sfx1 := Seq(Lit("_"), sfxName, Opt(Lit("1", "2")))
		sfx2 := Seq(Lit("_"), Lit("alpha", "rc", "p", "git", "foo"), Opt(Lit("1")))
		rev := Opt(Lit("-r0", "-r1", "-r2"))
		small := dotted(Lit("1", "2"), 1, 2)
		g = Alt(
			Seq(core, letter),
			Seq(small, letter, sfx1, pick2(level, Opt(Lit("-r1")), rev)),
			Seq(pick2(level, Lit("1.0"), small), Opt(Lit("a")), sfx2, sfx2, pick2(level, Opt(Lit("-r1")), rev)),
			Seq(small, Opt(Lit("~abc", "~0f", "~1")), rev),
			Seq(Lit("1.0", "1.1"), Lit("~a", "~ab", "~ac", "~abc", "~abd", "~abcd", "~abce", "~1a2b3c4", "~1a2b3c4d", "~1a2b3c4e")),
			Seq(small, sfx2, Lit("~abc")),
			Lit("9.0bc", "9.5", "10.0", "1.0-1", "1.0_", "1.0__p", "1..2", "1.0-r", "1.0-rx", "v1.0", "1.0A", "1.0_P1", "abc1", "1.0+b", "1:1.0", "9223372036854775808", "1.9223372036854775808", "1.0_p9223372036854775808", "1.0-r9223372036854775808"),
			AllStrings(Chars("01a_pr-.~"), 3),
			pick2(level, Lit(), AllStrings(Chars("01a_p-."), 4)),
		)
	case "alpm":
		core := dotted(Lit("0", "1", "2", "10", "01"), 1, pick(level, 2, 3))
		tail := Opt(Lit("a", "b", "rc", "alpha", "beta", "rc1", ".a", ".rc1", "_1", "+1", "a1", "-x"))
		rel := Opt(Lit("-1", "-2", "-10", "-01"))
		ep := Opt(Lit("0:", "1:", "2:"))
		g = Alt(
			Seq(core, tail, pick2(level, Opt(Lit("-1")), Opt(Lit("-1", "-2", "-10")))),
			Seq(pick2(level, Lit(), Lit("1:", "2:")), dotted(Lit("0", "1", "10"), 1, 2), tail),
			Seq(ep, Lit("1.0", "1.1"), Opt(Lit("a", "rc1")), rel),
			Seq(Lit("1.0", "1"), Lit("a", "b", ".a", "..", "._", "+", "_a", "rc2", "beta"), Lit("", "1", ".1", "a"), pick2(level, Opt(Lit("-1")), rel)),
			Seq(Lit("18446744073709551616", "000000000000000000002", "3", "18446744073709551615", "1.18446744073709551616", "1.000000000000000000002", "1.3"), rel),
			Lit("1.0-", "1:-1", "-1", "1.0--1", "1.0-1-1", "1:2:3", "a", "A1", "1.0é"),
			AllStrings(Chars("01ab._+-:"), 3),
			pick2(level, Lit(), AllStrings(Chars("01a._-"), 4)),
		)
	case "apache":
		core := dotted(Lit("0", "1", "2", "10", "01"), 3, 3)
		q := Cases("alpha", "beta", "m", "milestone", "rc", "snapshot", "dev", "foo", "zeta")
		g = Alt(
			core,
			Seq(dotted(Lit("1", "2"), 3, 3), Lit("-"), q, Opt(Lit("1", "2", "10", "01", "v20200101", "v20210101"))),
			Lit("1.0", "1.0.0.0", "v1.0.0", "1.0.0-", "1.0.0-1", "1.0.0-RC-1", "1.0.0.RC1", "2147483647.0.0", "2147483648.0.0", "9223372036854775808.0.0", "1.0.0-rc9223372036854775808", "1.0.0-rcv2020010"),
			AllStrings(Chars("01.-amv"), pick(level, 5, 6)),
		)
	case "cargo", "npm", "semver", "golang", "hex", "nuget":
		prefixes := Lit("")
		arMin, arMax := 3, 3
		switch name {
		case "npm":
			prefixes = Lit("", "v", "=", "=v")
		case "golang":
			prefixes = Lit("v", "")
		case "nuget":
			prefixes = Lit("", "v")
			arMin, arMax = 1, 4
		case "hex":
			arMin = 2
		}
		g = semverish(level, prefixes, arMin, arMax)
		if name == "golang" {
			ts := Lit("20200101000000", "20210101000000")
			rev := Lit("abcdef123456", "000000000000")
			g = Alt(g,
				Seq(Lit("v0.0.0-", "v1.0.0-", "v2.0.0-"), ts, Lit("-"), rev),
				Seq(Lit("v1.0.0-", "v1.2.3-"), Lit("rc", "pre", "alpha", "0", "rc1"), Lit(".0."), ts, Lit("-"), rev),
				Seq(Lit("v1.0.1-0.", "v1.2.4-0.", "v1.0.0-0."), ts, Lit("-"), rev),
				Lit("v1.2.3-20200101000000-abcdef123456", "v1.1.0-20200101000000-abcdef123456", "v1.0.1-20200101000000-abcdef123456", "v1.0.0-pseudo", "v1.0.1-pseudo", "v1.0.0-20200101000000-abcdef12345", "v1.0.0-99999999999999-abcdef123456", "1.0.0-20200101000000-abcdef123456", "v1.0.0+incompatible", "v2.0.0+incompatible", "v1.0.0-rc.0.20200101000000-abcdef123456", "v1.0.0-rc.0", "v1.0.0-rc.0.2"),
			)
		}
		g = Alt(g, AllStrings(Chars("01a.-+v"), pick(level, 5, 6)))
	case "composer":
		core := dotted(Lit("0", "1", "2", "10", "01"), 1, pick(level, 3, 4))
		if level == 0 {
			core = Alt(core, dotted(Lit("0", "1"), 4, 5))
		} else {
			core = Alt(core, dotted(Lit("0", "1"), 5, 5))
		}
		stab := Lit("alpha", "beta", "RC", "a", "b", "rc", "dev", "patch", "pl", "ALPHA", "Beta", "p", "stable")
		g = Alt(
			Seq(Opt(Lit("v")), core),
			Seq(Opt(Lit("v")), dotted(Lit("1", "2"), 1, 3), Lit("-"), stab, Opt(Lit("1", "2", ".1", ".2", "10"))),
			Seq(dotted(Lit("1", "2"), 1, 3), stab, Opt(Lit("1", "2", "10"))),
			Seq(Lit("1.0", "1.0.0"), Opt(Lit("-beta1", "b1", "-RC2")), Lit("+b", "+1.x")),
			Lit("dev-9.x", "dev-10.x", "dev-5.x-legacy", "dev-2", "dev-10", "dev-1.x", "dev-2.x", "dev-10.0", "dev-master", "dev-main", "dev-feature/x", "dev-", "master", "main", "develop", "trunk", "feature/x", "feature-x", "1.0-dev", "1.x-dev", "x-dev", "1.0.x-dev", "release-1.0", "1.0b1", "1.0.0-beta1", "1.0-beta1", "2147483648", "9223372036854775808", "1.9223372036854775808", "1.0-rc9223372036854775808", "1.0@dev", "1.0.0.0.0.0"),
			AllStrings(Chars("01.-vabdev"), pick(level, 4, 5)),
		)
	case "conan":
		part := Lit("0", "1", "2", "10", "01", "a", "b", "1a", "1b", "a1", "10a", "18446744073709551616", "9223372036854775808a")
		g = Alt(
			dotted(part, 1, pick(level, 2, 3)),
			dotted(Lit("0", "1", "10", "a", "1a"), 3, 3),
			Seq(dotted(Lit("1", "2", "1a"), 1, pick(level, 2, 3)), Lit("-"), Lit("0", "1", "10", "alpha", "beta", "rc", "a-b", "-", "pre", "x", "01", "ALPHA"), Opt(Lit(".0", ".1", ".10", ".a", ".9223372036854775808"))),
			Seq(Lit("1.0", "1.0.0"), Opt(Lit("-rc.1")), Lit("+b", "+1.2", "+a-b")),
			Lit("1.0.0-ALPHA", "1.0.0-Rc.1", "V1", "1.0.0.0.0", "1..0", "1.0-", "1.0+", "1.0-a..b", "1_0", "cci.20200101"),
			AllStrings(Chars("01ab.-+"), pick(level, 4, 5)),
		)
	case "cran":
		nn := Lit("0", "1", "2", "10", "01", "2147483647", "9223372036854775807")
		g = Alt(
			Join(nn, Lit(".", "-"), 2, pick(level, 2, 3)),
			Join(Lit("0", "1", "2", "10", "01"), Lit(".", "-"), 3, 3),
			Join(Lit("0", "1", "10"), Lit(".", "-"), 4, pick(level, 4, 5)),
			Lit("1", "1.", "1..2", "1.-2", "9223372036854775808.0", "1.18446744073709551616", "1.0a", "v1.0", "000000000000000000002.0"),
			AllStrings(Chars("019.-"), pick(level, 5, 6)),
		)
	case "debian":
		piece := Lit("0", "1", "2", "10", "01", "a", "z", "A", ".", "+", "~", "-", "ab")
		g = Alt(
			Seq(Lit("0", "1", "2", "10"), Rep(piece, 0, 2)),
			Seq(Opt(Lit("0:", "1:", "2:")), Lit("1", "1.0", "2"), Rep(piece, 0, pick(level, 0, 1)), Opt(Lit("-1", "-0", "-2", "-a", "-~1", "-1+b1", "-01"))),
			Seq(Lit("1"), Rep(pick2(level, Lit("0", "1", "a", ".", "+", "~", "-"), piece), pick(level, 3, 3), pick(level, 3, 3))),
			Seq(Lit("1.0", "1"), Lit("~rc1", "~", "~~", "~~a", "a", "+", ".", "-", "~a", "a~", "+b1", "+dfsg", "rc1", "a0", "a00", ".0", ".a", "+a", "-a"), Opt(Lit("-1", "-0"))),
			Lit("18446744073709551616", "000000000000000000002", "3", "18446744073709551615", "1.18446744073709551616", "1.000000000000000000002", "1.3", "1-18446744073709551616", "1-000000000000000000002", "1-3",
				"1.0-", "1:", ":1", "a1", "1:a", "1_0", "1.0é", "-1", "1--1", "1.0-1-", "01:1", "1:1:1", "9223372036854775808:1"),
			AllStrings(Chars("019az.+~-:"), pick(level, 3, 4)),
		)
	case "gem":
		word := Lit("a", "b", "rc", "pre", "alpha", "beta", "RC", "Alpha")
		core := dotted(Lit("0", "1", "2", "10", "01"), 1, 3)
		g = Alt(
			Seq(Opt(Lit("v")), core),
			Seq(dotted(Lit("1", "2", "0"), 1, 3), Lit("."), word, Opt(Lit("1", "2", "10", "0"))),
			Seq(dotted(Lit("1", "2"), 1, 2), Lit("."), Lit("a", "rc", "beta"), Lit(".", ""), Lit("0", "1", "2", "10"), Opt(Lit(".1", ".0", ".a"))),
			Seq(dotted(Lit("1", "2"), 1, 3), Lit("-"), Lit("a", "rc", "alpha", "rc1", "rc.1", "1", "0", "alpha.1", "a-b", "a.b", "1.a"), Opt(Lit("+b", "+1"))),
			Seq(dotted(Lit("1", "2"), 1, 3), Lit("+b", "+1", "+0", "+a.1")),
			Seq(Lit("1.0.", "1."), Lit("a", "rc"), Lit("."), Lit("a", "rc", "b1")),
			Lit("1.0.a.2", "1.0.1", "1.0.a2.3", "1.0.0.a", "1.0.a.0", "1.a.1.b", "0.beta.1", "0.0.beta.1", "0.0.beta", "5.a", "5.x", "5.0.0.rc2", "1.0.0-alpha", "1.0.0.pre.alpha", "2.0.0.rc1", "2.0.0", "1a", "1.0a", "1.0a1", "1.0.0rc1", "v", "1.", "1..0", "9223372036854775808", "1.9223372036854775808", "1.0.a9223372036854775808", "1-", "1.0-.1", "1.0--a", "1.0+", "1.0-a+b-c"),
			AllStrings(Chars("01ab.-+v"), pick(level, 4, 5)),
		)
	case "gentoo":
		core := dotted(Lit("0", "1", "2", "10", "01"), 1, 3)
		if level > 0 {
			core = Alt(core, dotted(Lit("0", "1"), 4, 5))
		}
		g = Alt(
			Seq(core, Opt(Lit("a", "b", "z", "A"))),
			Seq(dotted(Lit("1", "2"), 1, 2), Opt(Lit("a", "B")), Lit("_"), Lit("alpha", "beta", "pre", "rc", "p"), Opt(Lit("0", "1", "2", "10", "01")), Opt(Lit("-r0", "-r1", "-r2", "-r01"))),
			Seq(dotted(Lit("1", "2"), 1, 2), Opt(Lit("a")), Lit("-r0", "-r1", "-r10")),
			Lit("1.0_alpha_beta", "1.0_foo", "1.0_P1", "1.0_p-r1", "1.0-r", "1.0-1", "1.0ab", "1.0.0.0.0.0.0.0.0.0.0", "1.0.0.0.0.0.0.0.0.0.0.0", "", " ", "9223372036854775808", "1.9223372036854775808", "1_p9223372036854775808", "1-r9223372036854775808", "v1"),
			AllStrings(Chars("01a_pr-."), pick(level, 4, 5)),
		)
	case "github":
		core := dotted(Lit("0", "1", "2", "10", "01"), 3, 3)
		q := Cases("alpha", "beta", "rc", "dev", "snapshot", "foo", "zeta")
		g = Alt(
			Seq(Opt(Lit("v", "release-", "rel-")), core),
			Seq(Opt(Lit("v")), pick2(level, Lit("1.0.0", "1.2.3"), dotted(Lit("1", "2"), 3, 3)), Lit("-", "."), q, Opt(Lit("1", "2", "10", ".1", ".2", "01"))),
			Seq(Opt(Lit("v")), Lit("2024", "2023", "1000", "9999", "0001"), Lit("."), Lit("1", "01", "12", "13", "0", "00"), Lit("."), Lit("1", "01", "15", "31", "32", "0")),
			Lit("release-2024.1.15", "rel-2024.01.15", "release-2024.13.1", "v2024.1.15", "1000.1.1", "999.1.1", "10000.1.1", "2024.1.1-rc1", "2024.01.150", "2024.100.1", "1.0", "1.0.0.0", "V1.0.0", "release-v1.0.0", "1.0.0-", "1.0.0-1", "1.0.0--rc", "1.0.0-rc..1", "9223372036854775808.0.0", "1.0.0-rc9223372036854775808", "rel-1.0.0-beta.2"),
			AllStrings(Chars("01.-vrc"), pick(level, 5, 6)),
		)
	case "mattermost":
		core := dotted(Lit("0", "1", "2", "10", "99"), 3, 3)
		g = Alt(
			Seq(Opt(Lit("v")), core),
			Seq(Opt(Lit("v")), dotted(Lit("1", "2"), 3, 3), Lit("-esr", "-rc"), Opt(Lit("0", "1", "2", "10", "01"))),
			Lit("01.0.0", "1.01.0", "1.0.01", "1.0", "1.0.0.0", "V1.0.0", "1.0.0-ESR", "1.0.0-RC1", "1.0.0-beta", "1.0.0-", "1.0.0-rc-1", "9223372036854775808.0.0", "1.0.0-rc9223372036854775808", "2147483648.0.0"),
			AllStrings(Chars("01.-vrc"), pick(level, 5, 6)),
		)
	case "maven":
		core := dotted(Lit("0", "1", "2", "10"), 1, 3)
		if level > 0 {
			core = Alt(core, dotted(Lit("0", "1", "10"), 4, 4))
		}
		q := Cases("alpha", "beta", "milestone", "rc", "cr", "snapshot", "ga", "final", "release", "sp", "foo", "zeta")
		if level == 0 {
			q = Alt(Lit("alpha", "beta", "milestone", "rc", "cr", "snapshot", "ga", "final", "release", "sp", "foo", "zeta"), Lit("ALPHA", "Beta", "RC", "SNAPSHOT", "Final", "SP", "FOO"))
		}
		alias := Lit("a", "b", "m", "A")
		num := Lit("1", "2", "10")
		small := Lit("1", "1.0", "1.1", "2.0", "0.1", "1.0.0")
		if level == 0 {
			small = Lit("1", "1.0", "1.1", "2.0")
		}
		g = Alt(
			core,
			Seq(small, Lit(".", "-"), q),
			Seq(small, Lit(".", "-"), q, Lit("", ".", "-"), num),
			Seq(small, Lit("-", "."), alias, num),
			Seq(small, Lit("-", "."), alias),
			Seq(small, Lit("-"), Lit("1", "2", "10", "0", "5")),
			Lit("1-0.1", "1-0.2", "1-0", "2.0-ga.1", "2.0-ga.2", "2.0-final.1", "1-foo", "1-sp", "1-5", "1.0.1", "1.0-1", "1-1", "1.1", "1.0.0.0.0", "1-", "1.", "1..1", "1--1", ".1", "-1", "alpha", "sp", "ga", "a", "b", "m", "foo", "rc1", "1rc", "1rc1", "1.0-rc-sp-1", "1.0-ga-1", "1.0-alpha-beta", "1.0-1-2", "1_0", "1.0é", "2147483648", "9223372036854775808", "1.9223372036854775808", "01", "1.01", "1.0-alpha01", "1.0.0-FINAL", "1.0-xyz", "1.0.xyz", "1.0xyz", "1.0-SNAPSHOT", "1.0-snapshot-1"),
			AllStrings(Chars("01asp.-"), 4),
			pick2(level, Lit(), AllStrings(Chars("01s.-"), 5)),
		)
	case "pypi":
		ep := Opt(Lit("0!", "1!"))
		rel := Lit("0", "1", "1.0", "1.0.0", "1.1", "2", "1.0.1", "0.9", "10", "01", "1.01")
		pre := Opt(Lit("a0", "a1", "b1", "rc1", "rc2", "alpha1", "beta1", "c1", ".a1", ".rc1", "a01"))
		post := Opt(Lit(".post0", ".post1", "post1", ".rev1", ".r1", "r1"))
		dev := Opt(Lit(".dev0", ".dev1", "dev1"))
		local := Opt(Lit("+abc", "+1", "+abc.1", "+a.b", "+a-b", "+a_1"))
		if level == 0 {
			g = Alt(
				Seq(ep, rel),
				Seq(Lit("1.0", "1", "1.1"), pre, post, dev),
				Seq(Lit("1!1.0"), pre, dev),
				Seq(Lit("1.0"), Opt(Lit("a1", ".post1", ".dev1")), local),
			)
		} else {
			g = Alt(
				Seq(ep, rel),
				Seq(Opt(Lit("1!")), Lit("1.0", "1", "1.1", "1.0.0.0.1"), pre, post, dev),
				Seq(Lit("1.0", "1.1"), Opt(Lit("a1", "rc1")), Opt(Lit(".post1")), Opt(Lit(".dev1")), local),
			)
		}
		g = Alt(g,
			Lit("1.0a", "1.0.post", "1.0.dev", "1.0-1", "1.0-post1", "1.0_post1", "1.0-a1", "1.0.A1", "1.0RC1", "1.0.POST1", "v1.0", "1.0+", "1.0+a..b", "1.0+é", "1.0a1b1", "1.0.dev1.post1", "1.0.post1a1", "1!", "!1", "1.0pre1", "1.0preview1", "9223372036854775808", "1.9223372036854775808", "9223372036854775808!1", "1.0a9223372036854775808", "1.0.post9223372036854775808", "1.0.dev9223372036854775808", "1.0+9223372036854775808", "1..0", "1.0.", "1.0.*"),
			AllStrings(Chars("01ab.!+"), pick(level, 4, 5)),
			AllStrings([]string{"1", "0", ".", "a", "rc", "post", "dev", "+", "!"}, pick(level, 4, 5)),
		)
	case "rpm":
		piece := Lit("0", "1", "2", "10", "01", "a", "z", "A", ".", "_", "+", "~", "^", "-", "ab")
		g = Alt(
			Seq(Lit("0", "1", "2", "10", "a"), Rep(piece, 0, 2)),
			Seq(Opt(Lit("0:", "1:", "2:")), Lit("1", "1.0", "2"), Rep(piece, 0, pick(level, 0, 1)), Opt(Lit("-1", "-0", "-2", "-a", "-1.el7", "-01"))),
			Seq(Lit("1"), Rep(Lit("0", "1", "a", ".", "~", "^", "-"), 3, 3)),
			pick2(level, Lit(), Seq(Lit("1", "a"), Rep(Lit("0", "1", "10", "a", "A", "_", "+", "~", "^"), 3, 3))),
			Seq(Lit("1.0", "1"), Lit("~rc1", "~", "~~", "^", "^git1", "^1", "~rc1^git1", "^git1~pre", "a", "+", ".", "_", "a1", ".1", ".a", "rc1", "^20160101", "^20160101^git1"), Opt(Lit("-1", "-0"))),
			Lit("18446744073709551616", "000000000000000000002", "3", "18446744073709551615", "1.18446744073709551616", "1.000000000000000000002", "1.3", "1-18446744073709551616", "1-000000000000000000002", "1-3",
				"1.0-", "1:", ":1", "1:a", "1.0é", "-1", "1--1", "1.0-1-", "01:1", "1:1:1", "9223372036854775808:1", "2.0", "2_0", "2.0.1a", "2.0.1", "5.5p1", "5.5p10", "10xyz", "10.1xyz", "xyz10", "xyz10.1", "xyz.4", "8", "6.0.rc1", "6.0", "10b2", "10a1", "1.0aa", "10.0001", "10.1", "10.0039", "4.999.9", "5.0", "a+", "a_", "+a", "_a", "+", "_"),
			AllStrings(Chars("019az._~^-:"), 3),
			pick2(level, Lit(), AllStrings(Chars("01a.~^-"), 4)),
		)
	}
	_ = n
	// leading-zero family in the last one or two components (fraction-style and width-dependent
	// comparisons), for every ecosystem; rejected spellings are filtered by the real parser
	z := Lit("0", "1", "01", "010", "001", "0010", "00", "10", "100", "011", "11")
	pre := Lit("1.", "1.0.", "v1.0.", "1.0-", "1.0_p", "1.0.0-rc.", "1.0-r", "1:1.", "1.0~", "1.0rc")
	g = Alt(g, Seq(pre, z), Seq(Lit("1."), z, Lit("."), Lit("0", "1", "01", "010", "10")))
	// long component chains (fixed-size arrays, match-count caps): 9, 10, 11, 12 and 17 components,
	// the last one varied
	for _, n := range []int{9, 10, 11, 12, 17} {
		chain := "1"
		for i := 1; i < n-1; i++ {
			chain += ".1"
		}
		g = Alt(g, Seq(Lit(chain+"."), Lit("1", "2", "10", "0")))
	}
	g = Alt(g, Lit("1.2.3.4.rc1-beta.2", "1.2.3.4.rc1-beta.3", "1.2.3.4.rc1.beta.2", "1.2.3.4-rc.1.beta.2", "1.2.3.4-rc.1.beta.3"))
	// shorthand-base neighbourhoods (used by C20): releases around 0.2.3 / 1.2.3 and pre-release
	// spellings of versions in between, under every common marker
	g = Alt(g, Lit("0.2.3", "0.2.4", "0.2.6", "0.3.0", "1.2.3", "1.2.4", "1.2.6", "1.3.0", "2.0.0"),
		Seq(Lit("0.2.5", "1.2.5", "1.9.0"), Lit("-alpha", "-beta1", "-beta", "-rc.1", "-RC1", "a1", "rc1", "~rc1", "_rc1", ".rc1", "-SNAPSHOT", "-rc1", ".pre", "-dev")))
	// one-slot substitution closure of the ecosystem's typical shapes (see SlotMutations)
	g = Alt(g, SlotFamily(name))
	return g
}

var EcoNames = []string{"alpine", "alpm", "apache", "cargo", "composer", "conan", "cran", "debian", "gem", "gentoo", "github", "golang", "hex", "mattermost", "maven", "npm", "nuget", "pypi", "rpm", "semver"}
