//go:build !verif_instr

package main

func c19Op(string, int) string { return "<instrumented build required>" }
