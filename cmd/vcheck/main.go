// vcheck is the one checker binary: vcheck -prop Cxx -tier quick|thorough
package main

import (
	"encoding/json"
	"flag"
	"fmt"
	"os"
	"os/exec"
	"path/filepath"
	"runtime"
	"sort"
	"strconv"
	"strings"
	"sync"
	"time"

	"verif/engine/core"
	"verif/engine/findings"
	"verif/engine/gen"
	"verif/props"
)

var root = "/verif"

func main() {
	dumpPypiCandidates = props.C09Candidates0
	dumpMavenCandidates = props.C12Candidates0
	prop := flag.String("prop", "", "property id")
	tier := flag.String("tier", "quick", "quick|thorough")
	worker := flag.String("worker", "", "i/n (internal)")
	out := flag.String("out", "", "worker output file (internal)")
	replay := flag.String("replay", "", "replay a violation file")
	jobs := flag.Int("jobs", 0, "worker processes (default: min(16, NumCPU))")
	list := flag.Bool("list", false, "list properties")
	c19op := flag.String("c19op", "", "scope:index - run one C19 operation in this fresh process (internal)")
	dump := flag.String("dumpref", "", "dump reference-model pairs for conformance replay (debian|...)")
	dumpMax := flag.Int("dumpmax", 700, "max universe size for -dumpref")
	flag.Parse()
	if r := os.Getenv("VERIF_ROOT"); r != "" {
		root = r
	}
	if *c19op != "" {
		i := strings.LastIndex(*c19op, ":")
		idx, _ := strconv.Atoi((*c19op)[i+1:])
		fmt.Println(c19Op((*c19op)[:i], idx))
		return
	}
	if *dump != "" {
		dumpRef(*dump, *dumpMax)
		return
	}
	if *list {
		for _, id := range core.IDs() {
			fmt.Println(id, core.Get(id).Title)
		}
		return
	}
	if *replay != "" {
		os.Exit(doReplay(*replay))
	}
	if t := os.Getenv("VERIF_TIER"); t != "" && !flagSet("tier") {
		*tier = t
	}
	p := core.Get(*prop)
	if p == nil {
		fmt.Fprintf(os.Stderr, "unknown property %q\n", *prop)
		os.Exit(2)
	}
	fs, err := findings.Load(filepath.Join(root, "known_findings.json"))
	if err != nil {
		fmt.Fprintf(os.Stderr, "internal error: %v\n", err)
		os.Exit(2)
	}
	findings.Active = fs
	if *worker != "" {
		os.Exit(runWorker(p, fs, *tier, *worker, *out))
	}
	os.Exit(runParent(p, fs, *tier, *jobs))
}

func flagSet(name string) bool {
	set := false
	flag.Visit(func(f *flag.Flag) {
		if f.Name == name {
			set = true
		}
	})
	return set
}

func seed() int {
	s, _ := strconv.Atoi(os.Getenv("VERIF_SEED"))
	return s
}

func runWorker(p *core.Prop, fs *findings.Set, tier, spec, out string) int {
	var i, n int
	fmt.Sscanf(spec, "%d/%d", &i, &n)
	units := p.Units(tier)
	assign := core.Assign(units, n)
	res := core.NewResult()
	res.Classifier = fs.Classifier(p.ID)
	res.CurTier = tier
	res.CurWorker = spec
	for _, ui := range assign[i] {
		res.CurUnit = units[ui].Name
		func() {
			defer func() {
				if r := recover(); r != nil {
					buf := make([]byte, 4096)
					buf = buf[:runtime.Stack(buf, false)]
					res.Internalf("unit %s panicked in the checker: %v\n%s", units[ui].Name, r, buf)
				}
			}()
			t0 := time.Now()
			units[ui].Run(res)
			res.Units++
			if d := time.Since(t0); d > 5*time.Second {
				res.Notef("unit %s took %.1fs", units[ui].Name, d.Seconds())
			}
		}()
	}
	res.Add("gen_transitions", gen.S.Transitions)
	if err := res.Save(out); err != nil {
		fmt.Fprintln(os.Stderr, err)
		return 2
	}
	return 0
}

func runParent(p *core.Prop, fs *findings.Set, tier string, jobs int) int {
	start := time.Now()
	if jobs <= 0 {
		jobs = runtime.NumCPU()
		if jobs > 16 {
			jobs = 16
		}
	}
	units := p.Units(tier)
	if len(units) < jobs {
		jobs = len(units)
	}
	if jobs < 1 {
		jobs = 1
	}
	work := filepath.Join(root, ".work", "run-"+p.ID+"-"+tier)
	os.RemoveAll(work)
	os.MkdirAll(work, 0o755)
	self, _ := os.Executable()
	var wg sync.WaitGroup
	errs := make([]error, jobs)
	outs := make([]string, jobs)
	for w := 0; w < jobs; w++ {
		wg.Add(1)
		go func(w int) {
			defer wg.Done()
			outs[w] = filepath.Join(work, fmt.Sprintf("w%d.json", w))
			cmd := exec.Command(self, "-prop", p.ID, "-tier", tier, "-worker", fmt.Sprintf("%d/%d", w, jobs), "-out", outs[w])
			cmd.Env = append(os.Environ(), "GOMAXPROCS=2")
			cmd.Stderr = os.Stderr
			cmd.Stdout = os.Stderr
			if err := cmd.Start(); err != nil {
				errs[w] = err
				return
			}
			done := make(chan error, 1)
			go func() { done <- cmd.Wait() }()
			limit := 15 * time.Minute
			if tier == "thorough" {
				limit = 3 * time.Hour
			}
			select {
			case errs[w] = <-done:
			case <-time.After(limit):
				cmd.Process.Kill()
				<-done
				errs[w] = fmt.Errorf("killed by the %v wall-clock watchdog (a call into the code under test did not return, or the run is too large; C06 decides non-termination deterministically with statement budgets)", limit)
			}
		}(w)
	}
	wg.Wait()
	res := core.NewResult()
	for w := 0; w < jobs; w++ {
		if errs[w] != nil {
			res.Internalf("worker %d failed: %v", w, errs[w])
			continue
		}
		r, err := core.LoadResult(outs[w])
		if err != nil {
			res.Internalf("worker %d: %v", w, err)
			continue
		}
		res.Merge(r)
	}
	if p.Post != nil {
		res.Classifier = fs.Classifier(p.ID)
		res.CurTier, res.CurUnit, res.CurWorker = tier, "post", ""
		p.Post(res, tier)
	}
	if res.Units != len(units) {
		res.Internalf("only %d of %d units completed", res.Units, len(units))
	}
	res.SortNew()

	// Confirm new violations by replaying each 5x in fresh processes.
	os.MkdirAll(filepath.Join(root, "replay"), 0o755)
	var confirmed []core.Violation
	var replayPaths []string
	maxReport := 10
	historyTried, historyConfirmed := 0, 0
	for i := range res.New {
		if len(confirmed) >= maxReport {
			break
		}
		v := res.New[i]
		path := filepath.Join(root, "replay", fmt.Sprintf("%s-%s.json", p.ID, v.Key()))
		b, _ := json.MarshalIndent(v, "", " ")
		os.WriteFile(path, b, 0o644)
		fails, stable := 0, true
		var first string
		for k := 0; k < 5; k++ {
			o, err := exec.Command(self, "-replay", path).CombinedOutput()
			s := string(o)
			if k == 0 {
				first = s
			} else if s != first {
				stable = false
			}
			if ee, ok := err.(*exec.ExitError); ok && ee.ExitCode() == 1 {
				fails++
			} else if err != nil {
				stable = false
			}
		}
		if fails == 5 && stable {
			confirmed = append(confirmed, v)
			replayPaths = append(replayPaths, path)
			continue
		}
		if fails == 0 && stable && v.Unit != "" && historyTried < 4 {
			// The case passes in a fresh process: does it fail again when the whole unit is
			// re-enumerated from the start (deterministic, history-dependent failure)?
			historyTried++
			v.HistoryDependent = true
			b, _ := json.MarshalIndent(v, "", " ")
			os.WriteFile(path, b, 0o644)
			again := 0
			for k := 0; k < 2; k++ {
				err := exec.Command(self, "-replay", path).Run()
				if ee, ok := err.(*exec.ExitError); ok && ee.ExitCode() == 1 {
					again++
				}
			}
			if again == 2 {
				historyConfirmed++
				confirmed = append(confirmed, v)
				replayPaths = append(replayPaths, path)
				continue
			}
		}
		if fails == 0 && stable && historyConfirmed > 0 {
			continue // same history-dependent pattern as the ones already confirmed
		}
		res.Internalf("violation %s did not replay deterministically (%d/5 failed, stable=%v): %v", path, fails, stable, v.Inputs)
	}

	var conformance map[string]any
	if p.Conformance != "" {
		if tier == "thorough" || os.Getenv("VERIF_CONFORMANCE") != "" {
			arg := p.ConformanceArgs[tier]
			o, err := exec.Command(filepath.Join(root, p.Conformance), arg).CombinedOutput()
			lines := strings.Split(strings.TrimSpace(string(o)), "\n")
			last := lines[len(lines)-1]
			conformance = map[string]any{"script": p.Conformance, "result": last}
			if err != nil || !strings.Contains(last, "disagreements=0") {
				tail := lines
				if len(tail) > 12 {
					tail = tail[len(tail)-12:]
				}
				res.Internalf("reference model disagrees with the upstream tool (this is a defect of the checker's model, not of the repository): %s", strings.Join(tail, " | "))
			}
		} else {
			conformance = map[string]any{"script": p.Conformance, "result": "not run in the quick tier (run by thorough)"}
		}
	}
	exhaustive := len(res.Incomplete) == 0 && len(res.Internal) == 0
	cov := map[string]any{}
	if p.Finalize != nil {
		cov = p.Finalize(res, tier)
	}
	toInt := func(k string, def int64) int64 {
		switch x := cov[k].(type) {
		case int64:
			return x
		case int:
			return int64(x)
		}
		return def
	}
	cov["states"] = toInt("states", res.Counters["states"])
	cov["transitions"] = toInt("transitions", res.Counters["transitions"])
	cov["traces_validated_against_impl"] = toInt("traces_validated_against_impl", res.Counters["evaluations"])
	cov["evaluations"] = toInt("evaluations", res.Counters["evaluations"])
	cov["distinct_nontrivial"] = toInt("distinct_nontrivial", 0)
	cov["rule"] = p.Rule
	samples := res.Samples
	if len(samples) > 24 {
		samples = samples[:24]
	}
	if len(samples) == 0 {
		samples = []any{"(no sample recorded)"}
	}
	cov["samples"] = samples
	cov["exhaustive"] = exhaustive
	cov["counters"] = res.Counters
	cov["per_scope"] = res.PerScope
	cov["units"] = res.Units
	cov["workers"] = jobs
	tb := p.Trusted
	if tb == nil {
		tb = []string{"the Go toolchain and standard library", "the checker's own generators and oracles (DESIGN.md)"}
	}
	cov["trusted_base"] = tb
	if res.Incomplete == nil {
		res.Incomplete = []string{}
	}
	if res.Notes == nil {
		res.Notes = []string{}
	}
	kf := map[string]any{}
	for id, n := range res.KnownCount {
		w := res.KnownWit[id]
		kf[id] = map[string]any{"cases": n, "witness": w.Inputs, "got": w.Got}
	}
	cov["known_findings"] = kf
	if conformance != nil {
		cov["oracle_conformance"] = conformance
	}
	cov["active_known_findings"] = fs.Active(p.ID)
	sets := map[string]any{}
	for k, m := range res.Sets {
		var l []string
		for s := range m {
			l = append(l, s)
		}
		sort.Strings(l)
		if len(l) > 64 {
			sets[k] = map[string]any{"count": len(l), "first": l[:64]}
		} else {
			sets[k] = l
		}
	}
	cov["distinct_outcomes"] = sets
	cov["notes"] = res.Notes
	cov["incomplete"] = res.Incomplete
	if len(res.Internal) > 0 {
		cov["internal_errors"] = res.Internal
	}
	ev := map[string]any{
		"property_id": p.ID,
		"tier":        tier,
		"seed":        seed(),
		"level":       "model_checking",
		"coverage":    cov,
		"assumptions": p.Assumptions,
		"wall_s":      time.Since(start).Seconds(),
		"violations":  int(res.NewCount),
	}
	os.MkdirAll(filepath.Join(root, "evidence"), 0o755)
	b, _ := json.MarshalIndent(ev, "", " ")
	os.WriteFile(filepath.Join(root, "evidence", p.ID+".json"), b, 0o644)

	// Report.
	var ids []string
	for id := range res.KnownCount {
		ids = append(ids, id)
	}
	sort.Strings(ids)
	for _, id := range ids {
		e := fs.Entry(id)
		w := res.KnownWit[id]
		fmt.Printf("KNOWN-FINDING: property=%s %s %s (%d cases; witness %s: %q -> %s)\n", p.ID, id, e.What, res.KnownCount[id], w.Kind, w.Inputs, w.Got)
	}
	fmt.Printf("%s %s: units=%d states=%v transitions=%v evaluations=%v nontrivial=%v exhaustive=%v wall=%.1fs\n",
		p.ID, tier, res.Units, cov["states"], cov["transitions"], cov["evaluations"], cov["distinct_nontrivial"], exhaustive, time.Since(start).Seconds())
	for _, s := range res.Incomplete {
		fmt.Println("INCOMPLETE:", s)
	}
	if len(res.Internal) > 0 {
		for _, s := range res.Internal {
			fmt.Println("INTERNAL-ERROR:", s)
		}
	}
	if os.Getenv("VERIF_DEBUG") != "" {
		for _, v := range res.New {
			fmt.Printf("DEBUG-NEW %s/%s inputs=%q got: %s\n", v.Scope, v.Kind, v.Inputs, v.Got)
		}
	}
	if len(confirmed) > 0 {
		for i, v := range confirmed {
			fmt.Printf("VIOLATION property=%s replay=%s\n", p.ID, replayPaths[i])
			fmt.Printf("  %s/%s inputs=%q expected: %s got: %s\n", v.Scope, v.Kind, v.Inputs, v.Expected, v.Got)
		}
		fmt.Printf("(%d violating cases in total, %d distinct reported)\n", res.NewCount, len(confirmed))
		return 1
	}
	if len(res.Internal) > 0 {
		return 2
	}
	return 0
}

func doReplay(path string) int {
	b, err := os.ReadFile(path)
	if err != nil {
		fmt.Fprintln(os.Stderr, err)
		return 2
	}
	var v core.Violation
	if err := json.Unmarshal(b, &v); err != nil {
		fmt.Fprintln(os.Stderr, err)
		return 2
	}
	if fs, err := findings.Load(filepath.Join(root, "known_findings.json")); err == nil {
		findings.Active = fs
	}
	p := core.Get(v.Property)
	if p == nil || p.Replay == nil {
		fmt.Fprintln(os.Stderr, "no replay for property", v.Property)
		return 2
	}
	if v.HistoryDependent {
		return replayUnit(p, &v)
	}
	fails, detail := p.Replay(&v)
	detail = strings.TrimSpace(detail)
	if fails {
		fmt.Printf("REPLAY property=%s %s/%s inputs=%q: still fails: %s\n", v.Property, v.Scope, v.Kind, v.Inputs, detail)
		return 1
	}
	fmt.Printf("REPLAY property=%s %s/%s inputs=%q: passes: %s\n", v.Property, v.Scope, v.Kind, v.Inputs, detail)
	return 0
}

// replayUnit re-runs the unit a history-dependent violation came from, in this fresh process,
// and reports whether the same case fails again.
func replayUnit(p *core.Prop, v *core.Violation) int {
	fs, err := findings.Load(filepath.Join(root, "known_findings.json"))
	if err != nil {
		fmt.Fprintln(os.Stderr, err)
		return 2
	}
	findings.Active = fs
	tier := v.Tier
	if tier == "" {
		tier = "quick"
	}
	units := p.Units(tier)
	// the history is the sequence of units the original worker ran before (and including) the unit
	var seq []int
	var wi, wn int
	if n, _ := fmt.Sscanf(v.Worker, "%d/%d", &wi, &wn); n == 2 && wn > 0 && wi < wn {
		seq = core.Assign(units, wn)[wi]
	} else {
		for i := range units {
			seq = append(seq, i)
		}
	}
	res := core.NewResult()
	res.Classifier = fs.Classifier(p.ID)
	res.CurTier, res.CurWorker = tier, v.Worker
	for _, ui := range seq {
		u := units[ui]
		res.CurUnit = u.Name
		u.Run(res)
		if u.Name != v.Unit {
			continue
		}
		for _, n := range res.New {
			if n.Key() == v.Key() {
				fmt.Printf("REPLAY property=%s %s/%s inputs=%q: still fails when the worker's unit sequence up to %s is re-enumerated in a fresh process (history-dependent): %s\n", v.Property, v.Scope, v.Kind, v.Inputs, u.Name, n.Got)
				return 1
			}
		}
		fmt.Printf("REPLAY property=%s %s/%s inputs=%q: passes (unit sequence up to %s re-enumerated)\n", v.Property, v.Scope, v.Kind, v.Inputs, u.Name)
		return 0
	}
	fmt.Fprintln(os.Stderr, "unit not found:", v.Unit)
	return 2
}
