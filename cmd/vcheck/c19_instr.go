//go:build verif_instr

package main

import "verif/props"

var c19Op = props.C19Op
