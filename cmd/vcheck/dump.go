package main

import (
	"bufio"
	"fmt"
	"os"

	"verif/engine/gen"
	"verif/engine/ref"
)

// dumpRef writes "a b sign" lines of the reference model for every ordered pair of a
// deterministic sub-universe, for replay against the upstream tool (conformance/*).
func dumpRef(which string, max int) {
	w := bufio.NewWriter(os.Stdout)
	defer w.Flush()
	var strs []string
	var cmp func(a, b string) (int, string)
	switch which {
	case "debian":
		for _, s := range gen.Uniq(gen.Versions("debian", 0)) {
			if ref.DebianValid(s) {
				strs = append(strs, s)
			}
		}
		cmp = ref.DebianCompare
	case "pypi":
		for _, s := range gen.Uniq(dumpPypiCandidates()) {
			if ref.Pep440Valid(s) {
				strs = append(strs, s)
			}
		}
		cmp = ref.Pep440Compare
	case "maven":
		for _, s := range gen.Uniq(dumpMavenCandidates()) {
			if ref.MavenConventional(s) {
				strs = append(strs, s)
			}
		}
		cmp = ref.MavenCompare
	case "semver":
		for _, s := range gen.Uniq(dumpSemverCandidates()) {
			if _, _, ok := ref.SemverParts(s); ok {
				strs = append(strs, s)
			}
		}
		cmp = ref.SemverCompare
	default:
		fmt.Fprintln(os.Stderr, "unknown model", which)
		os.Exit(2)
	}
	if len(strs) > max {
		step := len(strs) / max
		var t []string
		for i := 0; i < len(strs); i += step {
			t = append(t, strs[i])
		}
		strs = t
	}
	for _, a := range strs {
		for _, b := range strs {
			c, _ := cmp(a, b)
			fmt.Fprintf(w, "%s %s %d\n", a, b, c)
		}
	}
}

var dumpPypiCandidates func() []string
var dumpMavenCandidates func() []string

func dumpSemverCandidates() []string {
	ids := []string{"0", "1", "2", "10", "99999999999999999", "a", "alpha", "beta", "rc", "A", "a-b", "-5", "-", "x-", "0a", "00a", "x"}
	var out []string
	for _, core := range []string{"1.0.0", "1.0.1", "2.0.0"} {
		out = append(out, core, core+"+b")
		for _, a := range ids {
			out = append(out, core+"-"+a)
			for _, b := range ids {
				out = append(out, core+"-"+a+"."+b)
			}
		}
	}
	return out
}
