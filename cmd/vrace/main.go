// vrace is the free-running complement of the interleaving explorer: the same scenario bodies
// run as truly concurrent goroutines behind a start barrier in a binary built with -race and
// WITHOUT the cooperative scheduler (whose hand-offs would be happens-before edges and blind the
// detector). Any race report makes the process exit with status 66 (GORACE exitcode).
package main

import (
	"flag"
	"fmt"
	"os"
	"sync"
	"sync/atomic"

	"verif/engine/scen"
)

func main() {
	repeats := flag.Int("repeats", 20, "repetitions per operation pair")
	only := flag.String("scope", "", "run a single scope")
	flag.Parse()
	pairs, runs, mismatches := 0, 0, 0
	var many int64
	for _, sc := range scen.All() {
		if *only != "" && sc.Scope != *only {
			continue
		}
		sh := sc.Setup()
		// sequential results first
		want := make([]string, len(sc.Ops))
		for i, op := range sc.Ops {
			want[i] = scen.SafeRun(op, sh)
		}
		for i := range sc.Ops {
			for j := range sc.Ops {
				pairs++
				for k := 0; k < *repeats; k++ {
					runs++
					var wg sync.WaitGroup
					start := make(chan struct{})
					var ri, rj string
					wg.Add(2)
					go func() { defer wg.Done(); <-start; ri = scen.SafeRun(sc.Ops[i], sh) }()
					go func() { defer wg.Done(); <-start; rj = scen.SafeRun(sc.Ops[j], sh) }()
					close(start)
					wg.Wait()
					if ri != want[i] || rj != want[j] {
						mismatches++
						if mismatches <= 10 {
							fmt.Printf("MISMATCH scope=%s ops=%q,%q got=%q,%q want=%q,%q\n", sc.Scope, sc.Ops[i].Name, sc.Ops[j].Name, ri, rj, want[i], want[j])
						}
					}
				}
			}
		}
		// many goroutines, all operations at once
		for k := 0; k < *repeats/4+1; k++ {
			var wg sync.WaitGroup
			start := make(chan struct{})
			for g := 0; g < 8; g++ {
				for i := range sc.Ops {
					wg.Add(1)
					i := i
					go func() {
						defer wg.Done()
						<-start
						if out := scen.SafeRun(sc.Ops[i], sh); out != want[i] {
							atomic.AddInt64(&many, 1)
						}
					}()
				}
			}
			close(start)
			wg.Wait()
			runs++
		}
	}
	mismatches += int(atomic.LoadInt64(&many))
	fmt.Printf("vrace: pairs=%d runs=%d mismatches=%d\n", pairs, runs, mismatches)
	if mismatches > 0 {
		os.Exit(3)
	}
}
