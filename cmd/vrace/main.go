// vrace is the free-running complement of the interleaving explorer: the same scenario bodies
// run as truly concurrent goroutines behind a start barrier in a binary built with -race and
// WITHOUT the cooperative scheduler (whose hand-offs would be happens-before edges and blind the
// detector). Any race report makes the process exit with status 66 (GORACE exitcode).
package main

import (
	"flag"
	"fmt"
	"os"
	"os/exec"
	"strings"
	"sync"
	"sync/atomic"

	"verif/engine/scen"
)

func main() {
	repeats := flag.Int("repeats", 20, "repetitions per operation pair")
	only := flag.String("scope", "", "run a single scope")
	cold := flag.Bool("cold", false, "cold-start pass of one scope (used by the parent on itself)")
	flag.Parse()
	if *cold {
		os.Exit(coldPass(*only))
	}
	pairs, runs, mismatches := 0, 0, 0
	// cold-start pass: one FRESH process per scope in which 8 goroutines build the shared values
	// and run every operation from a cold start, so that lazily filled package-level state
	// (caches) is first touched concurrently; a sequential warm-up would hide it
	coldRuns := 0
	for _, sc := range scen.All() {
		if *only != "" && sc.Scope != *only {
			continue
		}
		cmd := exec.Command(os.Args[0], "-cold", "-scope", sc.Scope)
		cmd.Env = os.Environ()
		out, err := cmd.CombinedOutput()
		coldRuns++
		if err != nil {
			fmt.Print(string(out))
			code := 3
			if ee, ok := err.(*exec.ExitError); ok {
				code = ee.ExitCode()
			}
			if strings.Contains(string(out), "DATA RACE") {
				code = 66
			}
			fmt.Printf("vrace: cold pass of scope %s failed (exit %d)\n", sc.Scope, code)
			os.Exit(code)
		}
	}
	var many int64
	for _, sc := range scen.All() {
		if *only != "" && sc.Scope != *only {
			continue
		}
		sh := sc.Setup()
		// sequential results first
		want := make([]string, len(sc.Ops))
		for i, op := range sc.Ops {
			want[i] = scen.SafeRun(op, sh)
		}
		for i := range sc.Ops {
			for j := range sc.Ops {
				// heavy operations (thousands of statements): with themselves and with the first six
				// operations only, and a tenth of the repetitions
				reps := *repeats
				if sc.Ops[i].Heavy || sc.Ops[j].Heavy {
					if i != j && i >= 6 && j >= 6 {
						continue
					}
					reps = reps/10 + 1
				}
				pairs++
				for k := 0; k < reps; k++ {
					runs++
					var wg sync.WaitGroup
					start := make(chan struct{})
					var ri, rj string
					wg.Add(2)
					go func() { defer wg.Done(); <-start; ri = scen.SafeRun(sc.Ops[i], sh) }()
					go func() { defer wg.Done(); <-start; rj = scen.SafeRun(sc.Ops[j], sh) }()
					close(start)
					wg.Wait()
					if ri != want[i] || rj != want[j] {
						mismatches++
						if mismatches <= 10 {
							fmt.Printf("MISMATCH scope=%s ops=%q,%q got=%q,%q want=%q,%q\n", sc.Scope, sc.Ops[i].Name, sc.Ops[j].Name, ri, rj, want[i], want[j])
						}
					}
				}
			}
		}
		// many goroutines, all operations at once
		for k := 0; k < *repeats/4+1; k++ {
			var wg sync.WaitGroup
			start := make(chan struct{})
			for g := 0; g < 8; g++ {
				for i := range sc.Ops {
					wg.Add(1)
					i := i
					go func() {
						defer wg.Done()
						<-start
						if out := scen.SafeRun(sc.Ops[i], sh); out != want[i] {
							atomic.AddInt64(&many, 1)
						}
					}()
				}
			}
			close(start)
			wg.Wait()
			runs++
		}
	}
	mismatches += int(atomic.LoadInt64(&many))
	fmt.Printf("vrace: cold_scopes=%d pairs=%d runs=%d mismatches=%d\n", coldRuns, pairs, runs, mismatches)
	if mismatches > 0 {
		os.Exit(3)
	}
}

// coldPass: no sequential warm-up. 8 goroutines each build their own shared values and run every
// operation; the sequential results are computed only afterwards.
func coldPass(scope string) int {
	scen.Cold = true
	sc, ok := scen.ByScope(scope)
	if !ok {
		fmt.Println("vrace: unknown scope", scope)
		return 2
	}
	const G = 8
	results := make([][]string, G)
	var wg sync.WaitGroup
	start := make(chan struct{})
	for g := 0; g < G; g++ {
		wg.Add(1)
		g := g
		go func() {
			defer wg.Done()
			<-start
			sh := sc.Setup()
			out := make([]string, len(sc.Ops))
			for i, op := range sc.Ops {
				out[i] = scen.SafeRun(op, sh)
			}
			results[g] = out
		}()
	}
	close(start)
	wg.Wait()
	sh := sc.Setup()
	bad := 0
	for i, op := range sc.Ops {
		want := scen.SafeRun(op, sh)
		for g := 0; g < G; g++ {
			if results[g][i] != want {
				bad++
				if bad <= 5 {
					fmt.Printf("MISMATCH (cold) scope=%s op=%q got=%q want=%q\n", scope, op.Name, results[g][i], want)
				}
			}
		}
	}
	// stage 2: fresh shared values (lazily filled fields still cold), built once, then every
	// operation from 8 goroutines at once on those SAME values, again without a warm-up
	sh2 := sc.Setup()
	res2 := make([][]string, G)
	start2 := make(chan struct{})
	for g := 0; g < G; g++ {
		wg.Add(1)
		g := g
		go func() {
			defer wg.Done()
			<-start2
			out := make([]string, len(sc.Ops))
			// half of the goroutines walk the operations backwards, so that first touches of the
			// same value come from different operations
			for k := range sc.Ops {
				i := k
				if g%2 == 1 {
					i = len(sc.Ops) - 1 - k
				}
				out[i] = scen.SafeRun(sc.Ops[i], sh2)
			}
			res2[g] = out
		}()
	}
	close(start2)
	wg.Wait()
	for i, op := range sc.Ops {
		want := scen.SafeRun(op, sh)
		for g := 0; g < G; g++ {
			if res2[g][i] != want {
				bad++
				if bad <= 5 {
					fmt.Printf("MISMATCH (cold, shared values) scope=%s op=%q got=%q want=%q\n", scope, op.Name, res2[g][i], want)
				}
			}
		}
	}
	if bad > 0 {
		return 3
	}
	return 0
}
